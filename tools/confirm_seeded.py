"""
Confirm a sub-agent's seeded change in its own scratch worktree and, if confirmed, copy it to /verif/seeded/<id>/.

  python tools/confirm_seeded.py /tmp/mut/C17 m1 [--id C17_a_m1]

Confirmed = demo exits 0 on the clean worktree, the patch applies, the pinned suite still shows 142 passed / 3 failed /
1 error with it, the demo exits non-zero with it. The worktree is left clean.
"""
import os
import re
import sys
import json
import shutil
import subprocess

VERIF = os.path.dirname(os.path.dirname(os.path.abspath(__file__)))


def sh(cmd, cwd=None, timeout=1800):
    r = subprocess.run(cmd, shell=True, capture_output=True, text=True, timeout=timeout, cwd=cwd)
    return r.returncode, (r.stdout+r.stderr)


def main():
    wt, m = sys.argv[1], sys.argv[2]
    sid = None
    if '--id' in sys.argv:
        sid = sys.argv[sys.argv.index('--id')+1]
    prop = os.path.basename(wt.rstrip('/')).split('_')[0]
    sid = sid or f'{os.path.basename(wt.rstrip("/"))}_{m}'
    d = os.path.join(wt, '_mutation', m)
    env = f'XDG_CACHE_HOME={wt}/_cache'
    rec = dict(id=sid, source=d)
    sh('git checkout -- .', cwd=wt)
    rc, out = sh(f'{env} /venv/bin/python _mutation/{m}/demo.py', cwd=wt)
    rec['demo_clean_exit'] = rc
    rc, out = sh(f'git apply _mutation/{m}/patch.diff', cwd=wt)
    rec['patch_applies'] = rc == 0
    if rc != 0:
        rec['apply_error'] = out[-300:]
    else:
        rc, out = sh(f'{env} /venv/bin/python -m pytest -ra -q -p no:cacheprovider --timeout=900 --continue-on-collection-errors', cwd=wt)
        last = out.strip().split('\n')[-1]
        rec['suite_last_line'] = last
        failed = sorted(re.findall(r'^(?:FAILED|ERROR) (\S+)', out, re.M))
        rec['suite_failed'] = failed
        rec['suite_same_as_baseline'] = bool(re.search(r'3 failed, 142 passed', last)) and failed == sorted([
            'adsg_core/tests/assign_enc', 'adsg_core/tests/test_optimization.py::test_graph_evaluator',
            'adsg_core/tests/test_optimization.py::test_graph_processor_des_vars',
            'adsg_core/tests/test_optimization.py::test_graph_processor_get_graph'])
        rc, out = sh(f'{env} /venv/bin/python _mutation/{m}/demo.py', cwd=wt)
        rec['demo_patched_exit'] = rc
        rec['demo_patched_tail'] = out[-400:]
        _, diffstat = sh('git diff --stat', cwd=wt)
        rec['diffstat'] = diffstat.strip().split('\n')[-1]
    sh('git checkout -- .', cwd=wt)
    ok = rec.get('demo_clean_exit') == 0 and rec.get('patch_applies') and rec.get('suite_same_as_baseline') and rec.get('demo_patched_exit', 0) != 0
    rec['confirmed'] = bool(ok)
    print(json.dumps(rec, indent=1))
    if ok:
        dst = os.path.join(VERIF, 'seeded', sid)
        os.makedirs(dst, exist_ok=True)
        shutil.copy(os.path.join(d, 'patch.diff'), dst)
        shutil.copy(os.path.join(d, 'demo.py'), dst)
        meta = {}
        try:
            meta = json.load(open(os.path.join(d, 'meta.json')))
        except Exception:  # noqa
            pass
        meta['property'] = meta.get('property', prop)
        meta['confirmed_by_me'] = dict(
            where=f'scratch worktree {wt} (outside /repo and /verif)',
            ran=['demo.py on the clean worktree (exit 0)', 'git apply patch.diff', 'pinned test suite (same 142 passed / 3 failed / 1 collection error as the baseline)',
                 'demo.py with the patch (non-zero exit)', 'git checkout -- .'],
            suite_last_line=rec.get('suite_last_line'), demo_patched_exit=rec.get('demo_patched_exit'), diffstat=rec.get('diffstat'))
        json.dump(meta, open(os.path.join(dst, 'meta.json'), 'w'), indent=1)
    return 0 if ok else 1


if __name__ == '__main__':
    sys.exit(main())
