#!/bin/sh
# Offline set-up: overlay venv on /venv (repo deps) + z3-solver / crosshair-tool from the local wheelhouse.
set -e
cd "$(dirname "$0")"
if [ ! -x .venv/bin/python ] || ! .venv/bin/python -c "import z3, numpy, numba, adsg_core" 2>/dev/null; then
  rm -rf .venv
  /venv/bin/python -m venv .venv
  SP=$(.venv/bin/python -c "import site;print(site.getsitepackages()[0])")
  printf '/venv/lib/python3.12/site-packages\n/repo\n' > "$SP/verif.pth"
  PIP_NO_INDEX=1 .venv/bin/pip install -q --no-index --find-links /opt/veriftools/wheels z3-solver crosshair-tool
fi
.venv/bin/python -c "import z3, numpy, numba, adsg_core; print('setup ok: z3', z3.get_version_string())"
.venv/bin/python -m symx.selftest
