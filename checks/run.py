"""python -m checks.run <PROPERTY> [--tier quick|thorough] [--seed N] [--replay file]"""
import sys
import warnings
warnings.filterwarnings('ignore')
from checks.common import main

if __name__ == '__main__':
    sys.exit(main())
