"""
C07 - activeness and imputation follow one contract (PARTIAL; DESIGN.md section 4).

  conn        connection variables on every code path of every encoder: rides on the C10 exploration (symbolic vector in
              Z^(n+e) through the real manager.get_matrix); reported here: activeness of a corrected vector must not depend
              on the raw vector, must equal the activeness listed by get_all_design_vectors, inactive entries are 0
  cia         AssignmentManagerBase._correct_is_active on a symbolic vector: -1 -> (0, inactive), else unchanged/active
  iterspec    every real ApplyIterSpec of the complete encoder on the DSG templates (and synthetic ones), idx in Z symbolic:
              (idx in spec) <=> idx in set(iter(spec))   [decode without materialising vs. enumeration]
  inactive    GraphProcessor._get_inactive_value: (lo+hi)/2 in [lo, hi] for symbolic bounds lo < hi; 0 for discrete
  enumdecode  AUXILIARY (concrete, labelled as such): on the DSG templates, listed designs carry canonical inactive values and
              decode (create=True/False) to themselves with the listed activeness
"""
import random
import numpy as np
import z3
from checks.common import *
from checks import c10
from pools import dsg as dsg_pool
from symx import *

PROP = 'C07'
META = dict(
    level='model_checking',
    functions=['adsg_core.optimization.assign_enc.assignment_manager.AssignmentManagerBase._correct_is_active',
               'adsg_core.optimization.assign_enc.encoding.EagerEncoder.get_matrix / _correct_vector',
               'adsg_core.optimization.assign_enc.lazy_encoding.LazyEncoder.get_matrix',
               'adsg_core.optimization.hierarchy.complete.ApplyIterSpec.__contains__ / __iter__',
               'adsg_core.optimization.graph_processor.GraphProcessor._get_inactive_value'],
    bounds=dict(conn='as C10 (<= 6 declared variables, vector entries unbounded)', iterspec_idx='any integer',
                bounds='any reals lo < hi'),
    outside=['enum_vs_decode (auxiliary, concrete) on templates and 10 / 60 seeded random graphs, free problem and every single fix of the first two fixable variables',
             'that selection-choice and design-variable-node activeness agree between enumeration, create=True and '
             'create=False decodes on whole graphs - that relation has no symbolic input (DESIGN.md 1.3)',
             'a variable not flagged conditionally active is active in every valid design: checked for connection '
             'variables per existence pattern only (the flag is merged over patterns by the graph processor)'],
    stubs=c10.META['stubs']+['EncoderSelector.get_best_assignment_manager -> default lazy encoder on the DSG templates'],
    assumptions=c10.META['assumptions'],
    explanation='bounded symbolic execution; see C10 for the connection-variable part',
)
INSTANCE_CAP_S = 200


def instances(tier, seed):
    out = []
    # connection variables: a sub-pool of the C10 instances (all eager factories, where activeness can differ between
    # the direct-hit and the imputed path, and a sample of the others)
    c10_inst = c10.instances(tier, seed)
    rnd = random.Random(11+seed)
    eager = [i for i in c10_inst if i['kind'] == 'eager']
    other = [i for i in c10_inst if i['kind'] != 'eager']
    rnd.shuffle(other)
    n_e, n_o = (60, 40) if tier == 'quick' else (600, 400)
    # settings written for the merging of conditionally-active flags are always part of the sub-pool
    flag = [i for i in c10_inst if 'flag merge' in i['label'] and i['kind'] != 'pattern']
    # pattern encoders list their design vectors per existence pattern through their own (possibly transposed) look-up
    flag += [i for i in c10_inst if i['kind'] == 'pattern' and i.get('c10_kind') != 'interference']
    # a manager that has corrected vectors before must report the same activeness afterwards (interference harness)
    flag += [i for i in c10_inst if i.get('c10_kind') == 'interference' and i['kind'] in ('eager', 'enum')]
    picked = eager[:n_e]+other[:n_o]
    picked += [i for i in flag if i not in picked]
    for i in picked:
        i = dict(i)
        i['label'] = 'conn '+i['label']
        i['c07_kind'] = 'conn'
        out.append(i)
    for n in (1, 3):
        out.append(dict(label=f'cia n={n}', c07_kind='cia', n=n))
    for name in dsg_pool.TEMPLATES:
        out.append(dict(label=f'iterspec {name}', c07_kind='iterspec', template=name))
    # seeded random graphs (pools/dsg_random.py), a different batch per VERIF_SEED
    rnd_names = [f'rnd{s_}' for s_ in range(1000*seed, 1000*seed+(10 if tier == 'quick' else 60))]
    for name in rnd_names:
        out.append(dict(label=f'iterspec {name}', c07_kind='iterspec', template=name))
    out.append(dict(label='iterspec synthetic', c07_kind='iterspec', template=None))
    out.append(dict(label='inactive_value', c07_kind='inactive'))
    for name in dsg_pool.TEMPLATES:
        out.append(dict(label=f'enum_vs_decode {name}', c07_kind='enumdecode', template=name))
    for name in rnd_names:
        out.append(dict(label=f'enum_vs_decode {name}', c07_kind='enumdecode', template=name))
    if tier == 'thorough':
        out.append(dict(label='crosshair second opinion: iterspec', c07_kind='crosshair', kernel='iterspec'))
    return out


def _viol(res, check, sig, config, inputs, observed, expected):
    res['status'] = VIOLATION
    res['violations'].append(violation_record(PROP, check, sig, config, inputs, observed, expected,
                                              replay_args=dict(check=check, config=config, inputs=inputs)))


def run_instance(inst, tier='quick', seed=0):
    k = inst['c07_kind']
    if k == 'conn':
        return c10.run_instance(inst, tier=tier, seed=seed)
    res = new_result(inst['label'])
    with FuncTracer() as tr:
        globals()[f'_run_{k}'](inst, res)
    res['functions'] = sorted(tr.names)
    return res


def _run_cia(inst, res):
    from adsg_core.optimization.assign_enc.assignment_manager import AssignmentManagerBase
    n = inst['n']
    names = [f'v{i}' for i in range(n)]

    def run():
        vec = [sym_int(nm) for nm in names]
        x, act = AssignmentManagerBase._correct_is_active(vec)
        return c10._plain_seq(x), c10._plain_seq(act)
    ex = explore(run)
    absorb(res, ex)
    if not ex.complete:
        res['status'] = INCONCLUSIVE
        res['notes'].append(ex.status)
        return
    require_exhaustive(res, ex)
    vs = [z3.Int(nm) for nm in names]
    for p in ex.paths:
        res['obligations'] += 1
        if p.kind == 'exc':
            _viol(res, 'correct_is_active', dict(kind='raises'), dict(n=n), dict(path=str(p.pc)), repr(p.exc), 'vector, activeness')
            continue
        x, act = p.value
        claims = []
        for i in range(n):
            xi = z3val(x[i])
            ai = z3val(bool(act[i])) if not is_sym(act[i]) else act[i].e
            claims.append(z3.And(ai == (vs[i] != -1), xi == z3.If(vs[i] == -1, 0, vs[i])))
        s = z3.Solver()
        s.add(p.cond(), z3.Not(z3.And(*claims)))
        r = str(s.check())
        res['solver_queries'] += 1
        if r == 'unsat':
            res['discharged'] += 1
        elif r == 'sat':
            m = s.model()
            vec = [m.eval(v, model_completion=True).as_long() for v in vs]
            nx, na = AssignmentManagerBase._correct_is_active(list(vec))
            want = ([0 if v == -1 else v for v in vec], [v != -1 for v in vec])
            if ([int(v) for v in nx], [bool(a) for a in na]) != want:
                _viol(res, 'correct_is_active', dict(kind='contract'), dict(n=n), dict(vector=vec),
                      dict(x=[int(v) for v in nx], active=[bool(a) for a in na]), dict(x=want[0], active=want[1]))
            else:
                res['status'] = HARNESS_ERROR
                res['notes'].append(f'model {vec} does not reproduce')
        res['validated'] += 1
    res['sample'] = dict(harness=inst['label'], paths=len(ex.paths))


def _synthetic_specs():
    from adsg_core.optimization.hierarchy.complete import ApplyIterSpec
    out = []
    for n_every, offsets, n_total in [(4, [(0, 2)], 12), (4, [(1, 1), (3, 1)], 8), (6, [(0, 1), (2, 3)], 18), (5, [(4, 1)], 10),
                                      (3, [(0, 3)], 9), (1, [(0, 1)], 4), (7, [(2, 2), (5, 2)], 21), (8, [(0, 8)], 8),
                                      (200, [(5*i, 2) for i in range(40)], 400), (72, [(2*i, 1) for i in range(36)], 144),
                                      (99, [(3*i+1, 2) for i in range(33)], 198)]:
        out.append(ApplyIterSpec(scenario=None, i_scenario=0, i_usi=0, i_comb=0, n_every=n_every, offsets=offsets, n_total=n_total))
    return out


def _run_iterspec(inst, res):
    if inst['template'] is None:
        specs = _synthetic_specs()
    else:
        gp, g, info = dsg_pool.make_processor(inst['template'])
        an = gp._hierarchy_analyzer
        specs = list(getattr(an, '_scenario_iter_spec', []))
    idx = sym_int('idx')
    done = 0
    for k, spec in enumerate(specs[:40]):
        ex = explore(lambda: idx in spec)
        absorb(res, ex)
        if not ex.complete:
            res['status'] = INCONCLUSIVE
            res['notes'].append(ex.status)
            continue
        listed = sorted(set(iter(spec)))
        member = z3.Or(*[idx.e == v for v in listed]) if listed else z3.BoolVal(False)
        acc = z3.Or(*[p.cond() for p in ex.paths if p.kind == 'ret' and p.value is True]) if ex.paths else z3.BoolVal(False)
        if any(p.kind == 'exc' for p in ex.paths):
            p = [p for p in ex.paths if p.kind == 'exc'][0]
            _viol(res, 'iterspec', dict(kind='raises', template=inst['template']), dict(template=inst['template'], k=k),
                  dict(spec=[spec.n_every, spec.offsets, spec.n_total]), repr(p.exc), 'bool')
            continue
        res['obligations'] += 1
        s = z3.Solver()
        s.add(acc != member)
        r = str(s.check())
        res['solver_queries'] += 1
        if r == 'unsat':
            res['discharged'] += 1
        elif r == 'sat':
            v = s.model().eval(idx.e, model_completion=True).as_long()
            got, want = (v in spec), (v in set(iter(spec)))
            if got != want:
                _viol(res, 'iterspec', dict(kind='contains_vs_iter', template=inst['template'], k=k),
                      dict(template=inst['template'], k=k), dict(spec=[spec.n_every, list(spec.offsets), spec.n_total], idx=v),
                      dict(contains=got), dict(in_iteration=want))
            else:
                res['status'] = HARNESS_ERROR
                res['notes'].append(f'model {v} does not reproduce')
        # concolic: one model per path
        for p in ex.paths:
            s2 = z3.Solver()
            s2.add(p.cond())
            if str(s2.check()) == 'sat':
                v = s2.model().eval(idx.e, model_completion=True).as_long()
                if (v in spec) != bool(p.value):
                    res['status'] = HARNESS_ERROR
                    res['notes'].append(f'concolic mismatch idx={v}')
                res['validated'] += 1
        done += 1
        if res['sample'] is None:
            res['sample'] = dict(harness=inst['label'], spec=dict(n_every=spec.n_every, offsets=list(spec.offsets), n_total=spec.n_total),
                                 paths=[dict(pc=str(p.pc), result=p.value) for p in ex.paths][:8])
    if done == 0:
        res['paths'] = max(res['paths'], 0)
        res['notes'].append('no iteration specs for this template')


def _run_enumdecode(inst, res):
    """AUXILIARY, concrete (not a solver verdict; DESIGN.md 1.3): on the hand-written templates, every enumerated design
    reports inactive variables at the canonical value, a variable not flagged conditionally active is active in every
    row, and decoding each row with and without materialising the instance returns the row and its activeness."""
    from adsg_core import GraphProcessor
    name = inst['template']
    gp, g, info = dsg_pool.make_processor(name)
    _enum_vs_decode(gp, name, res, None)
    n_rows = res['paths']
    # the same with one variable fixed (every value of the first two variables that can be fixed): the contract holds for
    # the restricted problem as well
    gp0 = gp
    n_fix = 0
    from adsg_core import DesignVariableNode
    fixable = [k for k, dv in enumerate(gp0.all_des_vars)
               if dv.is_discrete and not any(s_ <= k < e_ for _, _, _, s_, e_, _ in gp0._conn_choice_data_map.values())]
    dv_first = [k for k in fixable if isinstance(gp0.all_des_vars[k].node, DesignVariableNode)][:1]
    for k in fixable[:2]+[k for k in dv_first if k not in fixable[:2]]:
        dv = gp0.all_des_vars[k]
        for val in range(dv.n_opts):
            gp_f, _, _ = dsg_pool.make_processor(name)
            try:
                gp_f.get_all_discrete_x()  # (the free problem has been enumerated before the variable is fixed)
                gp_f.get_n_valid_designs(with_fixed=True)
                gp_f.fix_des_var(gp_f.all_des_vars[k], val)
                if len(gp_f.des_vars) > 0:
                    _enum_vs_decode(gp_f, name, res, (k, val))
            except RuntimeError as e:  # an empty restricted problem
                res['notes'].append(f'fix {k}={val}: {e}')
        n_fix += 1
    res['paths'] = max(1, n_rows)
    res['sample'] = dict(harness=inst['label'], rows=n_rows, note='auxiliary concrete check (free problem and single fixes)')


def _enum_vs_decode(gp, name, res, fixed):
    x_all = gp.get_all_discrete_x()
    if x_all is None:
        return
    x_all, act_all = x_all
    dvs = gp.des_vars
    for r, a in zip(np.array(x_all).tolist(), np.array(act_all).tolist()):
        res['obligations'] += 1
        problems = []
        for i, dv in enumerate(dvs):
            canon = 0 if dv.is_discrete else (dv.bounds[0]+dv.bounds[1])/2
            if not a[i] and r[i] != canon:
                problems.append(f'inactive variable {dv.name} listed at {r[i]}, canonical value {canon}')
            if not a[i] and not dv.conditionally_active:
                problems.append(f'variable {dv.name} is inactive in a listed design but not flagged conditionally active')
        dec = []
        for create in (True, False):
            try:
                _, xi, ai = gp.get_graph(list(r), create=create)
                dec.append(([float(v) for v in xi], [bool(v) for v in ai]))
            except Exception as e:  # noqa
                dec.append(f'{type(e).__name__}: {e}')
        want = ([float(v) for v in r], [bool(v) for v in a])
        # continuous active entries are listed at 0 by the enumeration (only discrete x are enumerated): compare those loosely
        def same(d):
            if not isinstance(d, tuple):
                return False
            for i, dv in enumerate(dvs):
                if d[1][i] != want[1][i]:
                    return False
                if dv.is_discrete or not want[1][i]:
                    if d[0][i] != want[0][i]:
                        return False
            return True
        for create, d in zip((True, False), dec):
            if not same(d):
                problems.append(f'decode(create={create}) of listed row gives {d}')
        if problems:
            _viol(res, 'enum_vs_decode', dict(kind='enumeration_vs_decode', template=name, what=problems[0].split(' ')[0], fixed=fixed is not None),
                  dict(template=name), dict(row=r, active=a, fixed=list(fixed) if fixed else None), problems[:3],
                  'canonical inactive values; decode of a listed row returns it with the same activeness')
        else:
            res['discharged'] += 1
        res['validated'] += 1
    if fixed is None:
        res['paths'] = max(1, len(x_all))


def _run_inactive(inst, res):
    from adsg_core import GraphProcessor
    from adsg_core.optimization.dv_output_defs import DesVar
    lo, hi = sym_real('lo'), sym_real('hi')
    pre = [lo.e < hi.e]

    def run():
        dv = DesVar('c', bounds=(lo, hi))
        return GraphProcessor._get_inactive_value(dv)
    ex = explore(run, pre=pre)
    absorb(res, ex)
    for p in ex.paths:
        res['obligations'] += 1
        if p.kind == 'exc':
            _viol(res, 'inactive_value', dict(kind='raises'), {}, {}, repr(p.exc), 'mid-bounds')
            continue
        v = z3val(p.value)
        s = z3.Solver()
        s.add(*pre)
        s.add(p.cond(), z3.Not(z3.And(v*2 == lo.e+hi.e, v >= lo.e, v <= hi.e)))
        if str(s.check()) == 'unsat':
            res['discharged'] += 1
        else:
            m = s.model()
            l, u = float(model_int(m, lo)), float(model_int(m, hi))
            got = GraphProcessor._get_inactive_value(DesVar('c', bounds=(l, u)))
            _viol(res, 'inactive_value', dict(kind='not_mid_bounds'), {}, dict(bounds=[l, u]), got, (l+u)/2)
        res['validated'] += 1
    d = GraphProcessor._get_inactive_value(DesVar('d', options=[1, 2, 3]))
    res['obligations'] += 1
    if d != 0:
        _viol(res, 'inactive_value', dict(kind='discrete_not_zero'), {}, {}, d, 0)
    else:
        res['discharged'] += 1
    res['sample'] = dict(harness='inactive value', paths=[dict(pc=str(p.pc), value=str(p.value)) for p in ex.paths])


def replay(rec):
    a = rec['replay_args']
    if a['check'] in ('decode', 'all_design_vectors', 'onto', 'encode', 'declared'):
        return c10.replay(rec)
    if a['check'] == 'iterspec':
        from adsg_core.optimization.hierarchy.complete import ApplyIterSpec
        n_every, offsets, n_total = a['inputs']['spec']
        spec = ApplyIterSpec(None, 0, 0, 0, n_every, [tuple(o) for o in offsets], n_total)
        v = a['inputs']['idx']
        print(f'spec n_every={n_every} offsets={offsets} n_total={n_total}: {v} in spec = {v in spec}; in set(iter(spec)) = {v in set(iter(spec))}')
        return (v in spec) != (v in set(iter(spec)))
    if a['check'] == 'enum_vs_decode':
        res = new_result('replay')
        _run_enumdecode(dict(label='replay', template=a['config']['template']), res)
        for v in res['violations'][:2]:
            print(v['input'], v['observed'])
        return len(res['violations']) > 0
    if a['check'] == 'correct_is_active':
        from adsg_core.optimization.assign_enc.assignment_manager import AssignmentManagerBase
        vec = a['inputs']['vector']
        nx, na = AssignmentManagerBase._correct_is_active(list(vec))
        print(vec, '->', nx, na)
        return True
    return True


def _run_crosshair(inst, res):
    """second opinion only (DESIGN.md 1.2): a CrossHair counterexample where the main engine proved the claim makes this
    instance inconclusive; 'Not confirmed' is reported as not covered"""
    from checks import crosshair_opinion
    out = crosshair_opinion.run(inst['kernel'], per_condition_timeout=30)
    res['crosshair'] = out
    res['paths'] = len(out)
    res['obligations'] += len(out)
    res['discharged'] += len([o for o in out if o['verdict'] == 'confirmed'])
    for o in out:
        if o['verdict'] in ('counterexample', 'error'):
            res['status'] = INCONCLUSIVE
            res['notes'].append(f"CrossHair {o['function']}: {o['verdict']}: {o['detail']}")
        elif o['verdict'] != 'confirmed':
            res['notes'].append(f"CrossHair {o['function']}: not covered ({o['detail']})")
    res['sample'] = dict(harness=inst['label'], crosshair=out)
