"""
C13 - choice constraints admit exactly the documented index combinations (partial; DESIGN.md section 4).

  closed_form    real `get_valid_idx_combinations` on rows of symbolic indices (>= -1, no upper bound): the row is kept
                 iff the documented predicate holds on its active entries
  sequential     real `get_constraint_removed_options` / `get_constraint_pre_removed_options` driven by a harness that
                 replays what DSG._get_removed_constrained_selection_choices does, with the order of taking choices
                 and the option taken at each step symbolic
  dsg_sequential the same histories through the real DSG API (constrain_choices, get_ordered_next_choice_nodes,
                 get_option_nodes, get_for_apply_selection_choice) on small graphs, history symbolic
  count          `count_n_combinations_max` == number of predicate tuples
  linked_dv      linked design-variable nodes: same clamped index / same relative position (real set_des_var_value)
"""
import itertools
import numpy as np
import z3
from checks.common import *
from checks import c16
from symx import *

PROP = 'C13'
META = dict(
    level='model_checking',
    functions=['adsg_core.graph.choice_constraints.get_valid_idx_combinations',
               'adsg_core.graph.choice_constraints.get_constraint_removed_options',
               'adsg_core.graph.choice_constraints.get_constraint_pre_removed_options',
               'adsg_core.graph.choice_constraints.count_n_combinations_max',
               'adsg_core.graph.adsg.DSG.constrain_choices', 'adsg_core.graph.adsg.DSG.get_for_apply_selection_choice',
               'adsg_core.graph.adsg.DSG._get_removed_constrained_selection_choices',
               'adsg_core.graph.adsg.DSG.set_des_var_value'],
    bounds=dict(closed_form='2-4 choices, index entries any integer >= -1 (unbounded above), 1-2 rows',
                sequential='2-3 choices, 2-4 options, every order and option sequence', linked_dv='2-3 variables'),
    outside=['DSG-level placements other than flat, hier, hier_rev, mutex, mid_cond, first_cond(_or), last_cond, two_groups(_late,_rev: canonical order only), base_after_copy, shared_opts',
             'that whole graphs with constraints across hierarchy levels offer exactly these architectures under both '
             'selection-choice encoders is a graph-structure quantifier: decided only on the placement templates (flat, '
             'hierarchical in both id orders, mutually exclusive, conditional middle choice), at the DSG level with symbolic '
             'histories and, as an AUXILIARY concrete check (encoder_level), through GraphProcessor with both encoders',
             'linked choices with different option counts (the documented semantics maps to the last option)',
             'linked discrete design variables with different option counts (same index impossible)',
             'permutation / non-replacing constraints over more choices than options (docs/theory.md: "require at least '
             'the same amount of options as the amount of choices"); the library removes every option there even if the '
             'choices are never active together'],
    stubs=['XDG_CACHE_HOME redirected'],
    assumptions=['predicates as worded in the property and docs/theory.md: all equal / pairwise different / '
                 'non-decreasing / strictly increasing over the active entries, in the order of constraint.nodes'],
    explanation='bounded symbolic execution; closed form decided for unbounded indices, sequential semantics by '
                'exhaustion of all symbolic histories',
)
INSTANCE_CAP_S = 300
TYPES = ['LINKED', 'PERMUTATION', 'UNORDERED', 'UNORDERED_NOREPL']


def _ctype(name):
    from adsg_core.graph.choice_constraints import ChoiceConstraintType
    return ChoiceConstraintType[name]


def instances(tier, seed):
    out = []
    for t in TYPES:
        for k in ((2, 3) if tier == 'quick' else (2, 3, 4)):
            for ap in (False, True):
                out.append(dict(label=f'closed_form {t} k={k} allperm={ap}', kind='closed', type=t, k=k, allperm=ap, rows=1))
        out.append(dict(label=f'closed_form {t} k=2 rows=2', kind='closed', type=t, k=2, allperm=False, rows=2))
        out.append(dict(label=f'closed_form {t} k=1', kind='closed', type=t, k=1, allperm=False, rows=2))
    seq = [(2, 2), (2, 3), (3, 3)] if tier == 'quick' else [(2, 2), (2, 3), (2, 4), (3, 3), (3, 4)]
    for t in TYPES:
        for k, n in seq:
            for ap in ((False, True) if t == 'UNORDERED_NOREPL' else (False,)):
                out.append(dict(label=f'sequential {t} k={k} n={n} allperm={ap}', kind='seq', type=t, ns=[n]*k, allperm=ap))
    for t in TYPES:
        for act in ([0, 2], [0, 1], [1, 2]):
            out.append(dict(label=f'sequential {t} k=3 n=4 active={act}', kind='seq', type=t, ns=[4, 4, 4], allperm=False, active=act))
        if tier == 'thorough':
            out.append(dict(label=f'sequential {t} k=4 n=4 active=[0, 3]', kind='seq', type=t, ns=[4, 4, 4, 4], allperm=False, active=[0, 3]))
            out.append(dict(label=f'sequential {t} k=4 n=4 active=[0, 2, 3]', kind='seq', type=t, ns=[4, 4, 4, 4], allperm=False, active=[0, 2, 3]))
    out.append(dict(label='sequential PERMUTATION ns=2,3', kind='seq', type='PERMUTATION', ns=[2, 3], allperm=False))
    out.append(dict(label='sequential PERMUTATION ns=2,3,3', kind='seq', type='PERMUTATION', ns=[2, 3, 3], allperm=False))
    out.append(dict(label='sequential PERMUTATION ns=3,2,3', kind='seq', type='PERMUTATION', ns=[3, 2, 3], allperm=False))
    out.append(dict(label='sequential PERMUTATION k=3 n=2 (too few options)', kind='seq', type='PERMUTATION', ns=[2, 2, 2], allperm=False))
    for t in TYPES:
        for k, n in ([(2, 2), (2, 3)] if tier == 'quick' else [(2, 2), (2, 3), (3, 3)]):
            out.append(dict(label=f'dsg_sequential {t} flat k={k} n={n}', kind='dsg', type=t, k=k, n=n, placement='flat'))
        out.append(dict(label=f'dsg_sequential {t} hier k=2 n=3', kind='dsg', type=t, k=2, n=3, placement='hier'))
        out.append(dict(label=f'dsg_sequential {t} hier_rev k=2 n=3', kind='dsg', type=t, k=2, n=3, placement='hier_rev'))
        out.append(dict(label=f'dsg_sequential {t} mutex k=2 n=2', kind='dsg', type=t, k=2, n=2, placement='mutex'))
        out.append(dict(label=f'dsg_sequential {t} mid_cond k=3 n=4', kind='dsg', type=t, k=3, n=4, placement='mid_cond'))
        out.append(dict(label=f'dsg_sequential {t} first_cond k=3 n=3', kind='dsg', type=t, k=3, n=3, placement='first_cond'))
        out.append(dict(label=f'dsg_sequential {t} last_cond k=3 n=3', kind='dsg', type=t, k=3, n=3, placement='last_cond'))
        out.append(dict(label=f'dsg_sequential {t} two_groups k=4 n=2', kind='dsg', type=t, k=4, n=2, placement='two_groups'))
        out.append(dict(label=f'dsg_sequential {t} two_groups_late k=4 n=2', kind='dsg', type=t, k=4, n=2, placement='two_groups_late'))
        out.append(dict(label=f'dsg_sequential {t} two_groups_rev k=5 n=3 (canonical order)', kind='dsg', type=t, k=5, n=3, placement='two_groups_rev'))
        out.append(dict(label=f'dsg_sequential {t} base_after_copy k=4 n=2', kind='dsg', type=t, k=4, n=2, placement='base_after_copy'))
        out.append(dict(label=f'dsg_sequential {t} shared_opts k=2 n=3', kind='dsg', type=t, k=2, n=3, placement='shared_opts'))
        if tier == 'thorough':
            for pl_ in ('two_groups', 'two_groups_late', 'base_after_copy'):
                out.append(dict(label=f'dsg_sequential {t} {pl_} k=4 n=3', kind='dsg', type=t, k=4, n=3, placement=pl_))
            out.append(dict(label=f'dsg_sequential {t} hier k=3 n=3', kind='dsg', type=t, k=3, n=3, placement='hier'))
            out.append(dict(label=f'dsg_sequential {t} hier_rev k=3 n=3', kind='dsg', type=t, k=3, n=3, placement='hier_rev'))
            out.append(dict(label=f'dsg_sequential {t} mutex k=3 n=3', kind='dsg', type=t, k=3, n=3, placement='mutex'))
        for enc in ('COMPLETE', 'FAST'):
            for pl, k_, n_ in (('flat', 2, 3), ('flat', 3, 3), ('hier', 2, 3), ('hier_rev', 2, 3), ('mutex', 2, 2), ('mid_cond', 3, 4),
                               ('first_cond', 3, 3), ('first_cond_or', 3, 3), ('last_cond', 2, 4), ('last_cond', 3, 4), ('two_groups', 5, 3)):
                out.append(dict(label=f'encoder_level {t} {enc} {pl} k={k_} n={n_}', kind='enc', type=t, k=k_, n=n_, placement=pl, encoder=enc))
        out.append(dict(label=f'count {t}', kind='count', type=t))
    for k in (2, 3):
        out.append(dict(label=f'linked_dv cont k={k}', kind='linked_dv', k=k, disc=None))
    out.append(dict(label='linked_dv disc n=3 k=2', kind='linked_dv', k=2, disc=3))
    out.append(dict(label='linked_dv disc n=2 k=3', kind='linked_dv', k=3, disc=2))
    out.append(dict(label='linked_dv disc ns=4,2,4 (clamped into own range)', kind='linked_dv', k=3, disc=[4, 2, 4]))
    return out


# --- oracle ----------------------------------------------------------------------------------------------------------


def pred_z3(t, xs, allperm=False):
    """documented predicate over the active entries (!= -1) of a row of z3 Int terms"""
    act = [x != -1 for x in xs]
    cs = []
    n = len(xs)
    if t == 'LINKED':
        for i, j in itertools.combinations(range(n), 2):
            cs.append(z3.Implies(z3.And(act[i], act[j]), xs[i] == xs[j]))
    elif t == 'PERMUTATION':
        for i, j in itertools.combinations(range(n), 2):
            cs.append(z3.Implies(z3.And(act[i], act[j]), xs[i] != xs[j]))
    else:
        strict = t == 'UNORDERED_NOREPL' and not allperm  # all-permanent: indices are those left by the pre-removal
        for i, j in itertools.combinations(range(n), 2):
            cs.append(z3.Implies(z3.And(act[i], act[j]), xs[i] < xs[j] if strict else xs[i] <= xs[j]))
    return z3.And(*cs) if cs else z3.BoolVal(True)


def pred_py(t, xs):
    act = [x for x in xs if x != -1]
    if t == 'LINKED':
        return all(a == act[0] for a in act)
    if t == 'PERMUTATION':
        return len(set(act)) == len(act)
    if t == 'UNORDERED':
        return all(a <= b for a, b in zip(act, act[1:]))
    return all(a < b for a, b in zip(act, act[1:]))


def _viol(res, check, sig, config, inputs, observed, expected):
    res['status'] = VIOLATION
    res['violations'].append(violation_record(PROP, check, sig, config, inputs, observed, expected,
                                              replay_args=dict(check=check, config=config, inputs=inputs)))


def native_closed(t, rows, allperm):
    from adsg_core.graph.choice_constraints import get_valid_idx_combinations
    return [int(i) for i in get_valid_idx_combinations(np.array(rows, dtype=int), _ctype(t), is_all_permanent=allperm)]


def run_instance(inst, tier='quick', seed=0):
    res = new_result(inst['label'])
    with FuncTracer() as tr:
        globals()[f'_run_{inst["kind"]}'](inst, res)
    res['functions'] = sorted(tr.names)
    return res


def _run_closed(inst, res):
    from adsg_core.graph.choice_constraints import get_valid_idx_combinations
    t, k, ap, nrows = inst['type'], inst['k'], inst['allperm'], inst['rows']
    ct = _ctype(t)
    arr = np.empty((nrows, k), dtype=object)
    xs = [[sym_int(f'r{r}_{c}') for c in range(k)] for r in range(nrows)]
    pre = []
    for r in range(nrows):
        for c in range(k):
            arr[r, c] = xs[r][c]
            pre.append(xs[r][c].e >= (0 if ap else -1))
    ex = explore(lambda: get_valid_idx_combinations(arr.copy(), ct, is_all_permanent=ap), pre=pre, time_cap_s=INSTANCE_CAP_S)
    absorb(res, ex)
    if not ex.complete:
        res['status'] = INCONCLUSIVE
        res['notes'].append(ex.status)
        return
    require_exhaustive(res, ex)
    import time
    for p in ex.paths:
        if p.kind == 'exc':
            s = z3.Solver()
            s.add(*pre)
            s.add(p.cond())
            if str(s.check()) == 'sat':
                rows = [[model_int(s.model(), x) for x in row] for row in xs]
                try:
                    native_closed(t, rows, ap)
                    res['status'] = HARNESS_ERROR
                    res['notes'].append(f'exception path does not reproduce: {p.exc!r} {rows}')
                except Exception as e:  # noqa
                    _viol(res, 'closed_form', dict(kind='raises', type=t, k=k, allperm=ap), dict(type=t, allperm=ap),
                          dict(rows=rows), f'{type(e).__name__}: {e}', 'indices of valid rows')
            continue
        kept = [int(i) for i in p.value]
        claims = []
        for r in range(nrows):
            want = pred_z3(t, [x.e for x in xs[r]], ap) if k > 1 else z3.BoolVal(True)
            claims.append(want if r in kept else z3.Not(want))
        s = z3.Solver()
        s.set('timeout', 20000)
        s.add(*pre)
        s.add(p.cond())
        s.add(z3.Not(z3.And(*claims)))
        res['obligations'] += 1
        t0 = time.perf_counter()
        r_ = str(s.check())
        res['solver_queries'] += 1
        res['solver_s'] += time.perf_counter()-t0
        if r_ == 'unsat':
            res['discharged'] += 1
        elif r_ == 'sat':
            rows = [[model_int(s.model(), x) for x in row] for row in xs]
            got = native_closed(t, rows, ap)
            want = [i for i, row in enumerate(rows) if _want_row(t, row, ap)]
            if got != want:
                _viol(res, 'closed_form', dict(kind='wrong_rows', type=t, k=k, allperm=ap), dict(type=t, allperm=ap),
                      dict(rows=rows), dict(valid=got), dict(valid=want))
            else:
                res['status'] = HARNESS_ERROR
                res['notes'].append(f'model does not reproduce natively: {rows}: {got}')
        else:
            res['status'] = INCONCLUSIVE
            res['notes'].append(f'solver {r_}')
        # concolic validation
        s2 = z3.Solver()
        s2.add(*pre)
        s2.add(p.cond())
        if str(s2.check()) == 'sat':
            rows = [[model_int(s2.model(), x) for x in row] for row in xs]
            if native_closed(t, rows, ap) != kept:
                res['status'] = HARNESS_ERROR
                res['notes'].append(f'concolic mismatch on {rows}: path {kept}, native {native_closed(t, rows, ap)}')
            res['validated'] += 1
    res['sample'] = dict(harness=inst['label'], paths=len(ex.paths),
                         example=dict(pc=str(ex.paths[0].pc)[:300], kept=str(ex.paths[0].value)) if ex.paths else None)


def _want_row(t, row, ap):
    if len(row) <= 1:
        return True
    if t == 'UNORDERED_NOREPL' and ap:
        return pred_py('UNORDERED', row)
    return pred_py(t, row)


# --- sequential semantics --------------------------------------------------------------------------------------------


class _Opt:
    def __init__(self, c, o):
        self.c, self.o = c, o

    def __repr__(self):
        return f'o{self.c}.{self.o}'


def _mk_constraint(t, ns):
    from adsg_core.graph.choice_constraints import ChoiceConstraint
    from adsg_core import SelectionChoiceNode
    nodes = [SelectionChoiceNode(f'C{i}') for i in range(len(ns))]
    options = [[_Opt(i, o) for o in range(n)] for i, n in enumerate(ns)]
    return ChoiceConstraint(_ctype(t), nodes, options), nodes, options


def _completions(t, ns, partial, avail=None):
    """all full tuples extending `partial` (dict choice->option) that satisfy the predicate"""
    out = []
    rng = [([partial[i]] if i in partial else list(range(n))) for i, n in enumerate(ns)]  # -1 = inactive, kept as is
    for tup in itertools.product(*rng):
        if pred_py(t, list(tup)):
            out.append(tup)
    return out


def _seq_harness(t, ns, allperm, order_sym, picks_sym, active=None):
    """one symbolic history: returns ('done', tuple, order) | ('dead', partial, order).
    active: indices of the constrained choices that become active (and are taken) in this architecture; the others are
    never taken and stay -1 (choices that are not active together are unconstrained)"""
    from adsg_core.graph.choice_constraints import get_constraint_removed_options, get_constraint_pre_removed_options
    con, nodes, options = _mk_constraint(t, ns)
    k = len(ns)
    avail = [list(range(n)) for n in ns]
    pre_removed = get_constraint_pre_removed_options(con, set(nodes) if allperm else set())
    for node, removed in pre_removed:
        i = nodes.index(node)
        avail[i] = [o for o in avail[i] if options[i][o] not in removed]
    taken = {}
    order = []
    act_set = list(range(k)) if active is None else list(active)
    for step in range(len(act_set)):
        remaining = [i for i in act_set if i not in taken]
        c = remaining[order_sym[step]]  # symbolic index -> concretised (engine forks over all remaining choices)
        order.append(c)
        if len(avail[c]) == 0:
            return 'dead', dict(taken), order
        o = avail[c][picks_sym[step]]
        taken[c] = o
        for node, removed in get_constraint_removed_options(con, c, o):
            i = nodes.index(node)
            if i in taken:
                continue
            avail[i] = [x for x in avail[i] if options[i][x] not in removed]
    return 'done', tuple(taken.get(i, -1) for i in range(k)), order


def native_seq(t, ns, allperm, order_idx, pick_idx):
    return _seq_harness(t, ns, allperm, order_idx, pick_idx)


def _run_seq(inst, res):
    t, ns, ap = inst['type'], inst['ns'], inst['allperm']
    active = inst.get('active')
    k = len(ns)
    ka = k if active is None else len(active)
    order_sym = [sym_int(f'ord{i}') for i in range(ka)]
    picks_sym = [sym_int(f'pick{i}') for i in range(ka)]
    pre = []
    for i in range(ka):
        pre += [order_sym[i].e >= 0, order_sym[i].e < ka-i, picks_sym[i].e >= 0, picks_sym[i].e < max(ns)]

    def run():
        try:
            return _seq_harness(t, ns, ap, order_sym, picks_sym, active=active)
        except IndexError:
            return 'nopick', None, None  # pick index beyond the options still available: not a history
    ex = explore(run, pre=pre, time_cap_s=INSTANCE_CAP_S, max_paths=50000)
    absorb(res, ex)
    if not ex.complete:
        res['status'] = INCONCLUSIVE
        res['notes'].append(ex.status)
        return
    require_exhaustive(res, ex)
    inactive = {} if active is None else {i: -1 for i in range(k) if i not in active}
    want_all = set(_completions(t, ns, dict(inactive)))
    reached_by_order = {}
    n_hist = 0
    for p in ex.paths:
        if p.kind == 'exc':
            _viol(res, 'sequential', dict(kind='raises', type=t, ns=ns, allperm=ap), dict(type=t, ns=ns, allperm=ap),
                  dict(path=str(p.pc)), repr(p.exc), 'removed options')
            continue
        status, val, order = p.value
        if status == 'nopick':
            continue
        n_hist += 1
        res['obligations'] += 1
        okey = tuple(order)
        if status == 'done':
            reached_by_order.setdefault(okey, set()).add(val)
            if not pred_py(t, list(val)):
                _viol(res, 'sequential', dict(kind='unsound_tuple', type=t, ns=ns, allperm=ap), dict(type=t, ns=ns, allperm=ap),
                      dict(order=order, tuple=list(val)), 'offered', f'{t} predicate violated')
            else:
                res['discharged'] += 1
        else:
            reached_by_order.setdefault(tuple(order[:len(val)]), set())
            # a dead end is only allowed where the partial assignment has no completion
            comp = _completions(t, ns, {**val, **inactive})
            if comp and ap is False and t in ('LINKED', 'UNORDERED'):
                _viol(res, 'sequential', dict(kind='silent_drop', type=t, ns=ns, allperm=ap), dict(type=t, ns=ns, allperm=ap),
                      dict(order=order, partial={str(a): b for a, b in val.items()}), 'choice left without options',
                      f'completions exist: {comp[:3]}')
            elif comp:
                _viol(res, 'sequential', dict(kind='dead_end_with_completion', type=t, ns=ns, allperm=ap),
                      dict(type=t, ns=ns, allperm=ap), dict(order=order, partial={str(a): b for a, b in val.items()}),
                      'choice left without options', f'completions exist: {comp[:3]}')
            else:
                res['discharged'] += 1
        res['validated'] += 1
    # completeness per order
    full_orders = [o for o in itertools.permutations(range(k) if active is None else active)]
    for o in full_orders:
        got = reached_by_order.get(o, set())
        res['obligations'] += 1
        missing = want_all-got
        # tuples may be legitimately unreachable in this order only if a dead end cut them - but a dead end requires no
        # completion, so every predicate tuple must be reached in every order
        if missing:
            _viol(res, 'sequential', dict(kind='missing_tuple', type=t, ns=ns, allperm=ap), dict(type=t, ns=ns, allperm=ap),
                  dict(order=list(o), missing=[list(m) for m in sorted(missing)][:5]), 'not offered', 'offered in every order')
        else:
            res['discharged'] += 1
    if not want_all and n_hist == 0:
        res['notes'].append('no history at all')
    res['sample'] = dict(harness=inst['label'], histories=n_hist, predicate_tuples=sorted(want_all)[:8],
                         orders=len(full_orders))


# --- DSG-level histories ---------------------------------------------------------------------------------------------


def _parents(k, placement):
    """activation structure in terms of positions in the constraint (= sorted by choice id): i -> (j, option of j that
    derives the node under which choice i hangs); absent = permanent"""
    if placement == 'hier':
        return {i: (i-1, 1) for i in range(1, k)}
    if placement == 'hier_rev':  # the lower hierarchy level comes first in the constraint order
        return {i: (i+1, 1) for i in range(0, k-1)}
    return {}


def _is_cond(placement, i, k):
    return {'mid_cond': 0 < i < k-1, 'first_cond': i == 0, 'last_cond': i == k-1, 'first_cond_or': i == 0}[placement]


def _groups(k, placement):
    """which choices one constraint covers: by default all of them; two_groups: two separate constraints"""
    if placement in ('two_groups', 'two_groups_late'):
        return [list(range(0, 2)), list(range(2, k))]
    if placement == 'two_groups_rev':   # the larger group is declared first (it may resolve choices on declaration)
        return [list(range(2, k)), list(range(0, 2))]
    if placement == 'base_after_copy':  # only the first group is declared on the graph under test
        return [list(range(0, 2))]
    if placement == 'shared_opts':
        return [list(range(k))]
    return [list(range(k))]


_PARENTS = [None]


def _mk_dsg(t, k, n, placement):
    """flat: every constrained choice hangs under a permanent node.
    hier / hier_rev: a choice hangs under option 1 of the previous / next choice (in constraint order), so it is active
    only if that choice took option 1.
    mutex: the constrained choices hang under different options of an extra (unconstrained) choice X, so no two of them
    are ever active together."""
    from adsg_core import BasicDSG, NamedNode
    g = BasicDSG()
    root = NamedNode('R')
    choices, opts, parents = [], [], []
    shared = [NamedNode(f'S{j}') for j in range(n)]
    for i in range(k):
        parents.append(NamedNode(f'P{i}'))
        # shared_opts: all constrained choices select from the same option node objects
        opts.append(list(shared) if placement == 'shared_opts' else [NamedNode(f'O{i}_{j}') for j in range(n)])
    extra = None
    par = _parents(k, placement)
    if placement == 'shared_opts':
        # the first constrained choice is conditional (decided after the permanent later ones in the canonical walk)
        xo = [NamedNode('X0'), NamedNode('X1')]
        extra = (g.add_selection_choice('A_X', root, xo), xo)
        for i in range(k):
            g.add_edges([((xo[1] if i == 0 else root), parents[i])])
    elif placement in ('mid_cond', 'first_cond', 'last_cond', 'first_cond_or'):
        # some constrained choices hang under option 1 of an extra (unconstrained) choice, the others are permanent:
        # mid_cond: the ones in between the first and the last; first_cond: the first; last_cond: the last;
        # first_cond_or: the first under option 1 only, the others under BOTH options of the extra choice
        xo = [NamedNode('X0'), NamedNode('X1')]
        extra = (g.add_selection_choice('A_X', root, xo), xo)
        for i in range(k):
            if placement == 'first_cond_or' and i > 0:
                g.add_edges([(xo[0], parents[i]), (xo[1], parents[i])])
            else:
                g.add_edges([((xo[1] if _is_cond(placement, i, k) else root), parents[i])])
    elif placement == 'mutex':
        xo = [NamedNode(f'X{j}') for j in range(k)]
        extra = (g.add_selection_choice('A_X', root, xo), xo)
        for i in range(k):
            g.add_edges([(xo[i], parents[i])])
    else:
        for i in range(k):
            if i in par:
                j, o = par[i]
                g.add_edges([(opts[j][o], parents[i])])
            else:
                g.add_edges([(root, parents[i])])
    for i in range(k):
        choices.append(g.add_selection_choice(f'C{i}', parents[i], opts[i]))
    g = g.set_start_nodes({root})
    for k_grp, grp in enumerate(_groups(k, placement)):
        if k_grp > 0 and placement == 'two_groups_late':
            # the design space is explored a little between the two declarations (results discarded)
            nxt_ = list(g.get_ordered_next_choice_nodes())  # (the first group may already have been resolved)
            if nxt_:
                g.get_for_apply_selection_choice(nxt_[0], g.get_option_nodes(nxt_[0])[0])
            _ = [g.get_option_nodes(c_) for c_ in nxt_]
        g = g.constrain_choices(_ctype(t), [choices[i] for i in grp])
        con = g.get_choice_constraints()[-1]
        if sorted(map(str, con.nodes)) != sorted(str(choices[i]) for i in grp):
            raise RuntimeError('harness: constraint covers other choices than declared')
    if placement == 'base_after_copy':
        # a copy of the graph gets a further constraint; the graph under test must not be affected
        variant = g.copy().constrain_choices(_ctype(t), [choices[i] for i in range(2, k)])
        _ = variant.get_choice_constraints()
    _PARENTS[0] = parents
    return g, choices, opts, extra


def _dsg_oracle(t, k, n, placement):
    """set of admitted assignments; -1 = choice inactive (its node never becomes part of the architecture)"""
    out = set()
    if placement == 'mutex':
        for i in range(k):
            for o in range(n):
                tup = [-1]*k
                tup[i] = o
                out.add(tuple(tup))
        return out
    if placement in ('mid_cond', 'first_cond', 'last_cond', 'first_cond_or'):
        for xsel in (0, 1):
            rng = [(range(n) if (xsel == 1 or not _is_cond(placement, i, k)) else [-1]) for i in range(k)]
            for tup in itertools.product(*rng):
                if pred_py(t, list(tup)):
                    out.add(tuple(tup))
        return out
    if placement == 'shared_opts':
        for xsel in (0, 1):
            rng = [(range(n) if (xsel == 1 or i > 0) else [-1]) for i in range(k)]
            for tup in itertools.product(*rng):
                if pred_py(t, list(tup)):
                    out.add(tuple(tup))
        return out
    if placement in ('two_groups', 'two_groups_late', 'two_groups_rev', 'base_after_copy'):
        for tup in itertools.product(range(n), repeat=k):
            if all(pred_py(t, [tup[i] for i in grp]) for grp in _groups(k, placement)):
                out.add(tuple(tup))
        return out
    par = _parents(k, placement)
    for tup in itertools.product(range(-1, n), repeat=k):
        ok = True
        for i in range(k):
            active = True if i not in par else (tup[par[i][0]] == par[i][1])
            if active != (tup[i] != -1):
                ok = False
                break
        if ok and pred_py(t, list(tup)):
            out.add(tup)
    return out


def _dsg_history(t, k, n, placement, which_sym, pick_sym):
    g, choices, opts, extra = _mk_dsg(t, k, n, placement)
    order = []
    picked = {}
    step = 0
    n_steps = k+(1 if extra else 0)
    while not g.final and step < n_steps:
        nxt = list(g.get_ordered_next_choice_nodes())
        if not nxt:
            break
        c = nxt[which_sym[step]]
        o_nodes = g.get_option_nodes(c)
        if len(o_nodes) == 0:
            return 'dead', None, order, g.feasible
        o = o_nodes[pick_sym[step]]
        order.append(choices.index(c) if c in choices else -1)
        if c in choices:
            picked[choices.index(c)] = [j for j, o_ in enumerate(opts[choices.index(c)]) if o_ is o]
        g = g.get_for_apply_selection_choice(c, o)
        step += 1
    # read the final assignment from the instance: which option node of each choice is present
    tup = []
    nodes = set(g.graph.nodes)
    if placement == 'shared_opts':
        # the choices select from the same node objects: the assignment is read from the edge that replaces each
        # applied choice (origin -> selected option); every shared node present must be explained by such an edge
        parents = _PARENTS[0]
        for i in range(k):
            tup.append([j for j, o in enumerate(opts[i]) if o in nodes and parents[i] in nodes and g.graph.has_edge(parents[i], o)])
        present = {j for j, o in enumerate(opts[0]) if o in nodes}
        if present != {j for v in tup for j in v}:
            return 'done', [[0, 1]]*k, order, bool(g.feasible and g.final)  # reported as "not one option"
        return 'done', tup, order, bool(g.feasible and g.final)
    for i in range(k):
        tup.append([j for j, o in enumerate(opts[i]) if o in nodes])
    return 'done', tup, order, bool(g.feasible and g.final)


def _run_dsg(inst, res):
    t, k, n, placement = inst['type'], inst['k'], inst['n'], inst['placement']
    n_steps = k+(1 if placement in ('mutex', 'mid_cond', 'first_cond', 'last_cond', 'first_cond_or', 'shared_opts') else 0)
    which = [sym_int(f'w{i}') for i in range(n_steps)]
    pick = [sym_int(f'p{i}') for i in range(n_steps)]
    pre = []
    for i in range(n_steps):
        pre += [which[i].e >= 0, which[i].e < n_steps, pick[i].e >= 0, pick[i].e < max(n, k)]
        if placement == 'two_groups_rev':  # five choices: only the canonical order of taking choices (stated bound)
            pre.append(which[i].e == 0)

    def run():
        try:
            return _dsg_history(t, k, n, placement, which, pick)
        except IndexError:
            return 'nopick', None, None, None
    ex = explore(run, pre=pre, time_cap_s=INSTANCE_CAP_S, max_paths=20000)
    absorb(res, ex)
    if not ex.complete:
        res['status'] = INCONCLUSIVE
        res['notes'].append(ex.status)
        return
    require_exhaustive(res, ex)
    want = _dsg_oracle(t, k, n, placement)
    got_feasible = set()
    n_hist = 0
    for p in ex.paths:
        if p.kind == 'exc':
            _viol(res, 'dsg_sequential', dict(kind='raises', type=t, k=k, n=n, placement=placement),
                  dict(type=t, k=k, n=n, placement=placement), dict(path=str(p.pc)), repr(p.exc), 'instance')
            continue
        status, tup, order, ok = p.value
        if status == 'nopick':
            continue
        n_hist += 1
        res['validated'] += 1
        res['obligations'] += 1
        if status == 'done' and ok:
            if any(len(x) > 1 for x in tup):
                _viol(res, 'dsg_sequential', dict(kind='not_one_option', type=t, k=k, n=n, placement=placement),
                      dict(type=t, k=k, n=n, placement=placement), dict(order=order), dict(options_present=tup), 'at most one option per choice')
                continue
            v = tuple(x[0] if x else -1 for x in tup)
            got_feasible.add(v)
            if not all(pred_py(t, [v[i] for i in grp]) for grp in _groups(k, placement)):
                _viol(res, 'dsg_sequential', dict(kind='unsound_tuple', type=t, k=k, n=n, placement=placement),
                      dict(type=t, k=k, n=n, placement=placement), dict(order=order, tuple=list(v)), 'feasible final instance',
                      f'{t} predicate violated')
            else:
                res['discharged'] += 1
        else:
            res['discharged'] += 1
    res['obligations'] += 1
    if got_feasible != want:
        _viol(res, 'dsg_sequential', dict(kind='set_mismatch', type=t, k=k, n=n, placement=placement),
              dict(type=t, k=k, n=n, placement=placement),
              dict(missing=sorted(want-got_feasible)[:5], extra=sorted(got_feasible-want)[:5]), 'architectures offered', 'predicate set')
    else:
        res['discharged'] += 1
    res['sample'] = dict(harness=inst['label'], histories=n_hist, offered=sorted(got_feasible)[:10])


def _run_enc(inst, res):
    """AUXILIARY, concrete (not a solver verdict; DESIGN.md 1.3/11.3): on the placement templates, the architectures a
    GraphProcessor offers under the complete and the fast selection-choice encoder - every row of get_all_discrete_x
    (complete encoder) and the decode of every vector of the declared space - are exactly the predicate set."""
    from adsg_core import GraphProcessor, SelChoiceEncoderType
    t, k, n, placement, enc = inst['type'], inst['k'], inst['n'], inst['placement'], inst['encoder']
    g, choices, opts, extra = _mk_dsg(t, k, n, placement)
    cfg = dict(type=t, k=k, n=n, placement=placement, encoder=enc)
    want = _dsg_oracle(t, k, n, placement)
    try:
        gp = GraphProcessor(g, encoder_type=SelChoiceEncoderType[enc])
        dvs = gp.des_vars
    except Exception as e:  # noqa
        _viol(res, 'encoder_level', dict(kind='processor_raises', **cfg), cfg, {}, f'{type(e).__name__}: {e}', 'processor')
        return

    if len(dvs) == 0 and enc == 'FAST':
        # every constrained choice is forced (one architecture): the fast encoder then has no design variable and its
        # decode of the empty vector crashes - the subject of C14 (not claimed), not of the constraint semantics
        res['status'] = SKIPPED
        res['notes'].append('fast encoder without design variables: outside C13 (C14)')
        return

    def assignment(inst_g):
        nodes = set(inst_g.graph.nodes)
        tup = []
        for i in range(k):
            present = [j for j, o in enumerate(opts[i]) if o in nodes]
            tup.append(present[0] if len(present) == 1 else (-1 if not present else -2))
        return tuple(tup)
    got, problems = set(), []
    for x in itertools.product(*[range(d.n_opts) for d in dvs]):
        res['obligations'] += 1
        try:
            inst_g, x_imp, act = gp.get_graph(list(x))
        except Exception as e:  # noqa
            problems.append(f'decode of {list(x)} raises {type(e).__name__}: {e}')
            continue
        if not (inst_g.final and inst_g.feasible):
            problems.append(f'decode of {list(x)} is not final/feasible')
            continue
        a = assignment(inst_g)
        got.add(a)
        if a not in want:
            problems.append(f'decode of {list(x)} gives assignment {a}, which violates the {t} predicate / activation structure')
        else:
            res['discharged'] += 1
        res['validated'] += 1
    res['obligations'] += 1
    if got != want:
        problems.append(f'architectures reachable by decoding: missing {sorted(want-got)[:4]} extra {sorted(got-want)[:4]}')
    else:
        res['discharged'] += 1
    if enc == 'COMPLETE':
        xs, _ = gp.get_all_discrete_x()
        listed = set()
        for r in np.array(xs).tolist():
            try:
                inst_g, _, _ = gp.get_graph(list(r))
                listed.add(assignment(inst_g))
            except Exception as e:  # noqa
                problems.append(f'listed row {r} does not decode: {type(e).__name__}: {e}')
        res['obligations'] += 1
        if listed != want or len(xs) != len(want):
            problems.append(f'get_all_discrete_x: {len(xs)} rows, architectures missing {sorted(want-listed)[:4]} extra {sorted(listed-want)[:4]}')
        else:
            res['discharged'] += 1
    if problems:
        _viol(res, 'encoder_level', dict(kind='encoder_level_set', what=problems[-1].split(':')[0][:40], **cfg), cfg,
              dict(declared=[d.n_opts for d in dvs]), problems[:4], f'exactly the {len(want)} architectures of the predicate')
    res['paths'] = max(1, len(got))
    res['sample'] = dict(harness=inst['label'], offered=sorted(got)[:8], expected=len(want), note='auxiliary concrete check')


def _run_count(inst, res):
    from adsg_core.graph.choice_constraints import count_n_combinations_max
    t = inst['type']
    for ns in ([2, 2], [3, 3], [4, 4], [3, 3, 3], [2, 3], [3, 2, 3], [4, 4, 4]):
        if t in ('UNORDERED', 'UNORDERED_NOREPL') and len(set(ns)) > 1:
            continue
        con, _, _ = _mk_constraint(t, ns)
        for ap in (False, True):
            got = count_n_combinations_max(con, is_all_permanent=ap)
            if t == 'UNORDERED_NOREPL':
                # counted in the indices left by the pre-removal: non-decreasing tuples over n-(k-1) options each
                k, n = len(ns), ns[0]
                want = len([tup for tup in itertools.product(range(n), repeat=k) if pred_py('UNORDERED', list(tup))])
                want_orig = len(_completions(t, ns, {}))
                res['notes'].append(f'{t} ns={ns}: count_n_combinations_max={got} (max over declared indices), strictly increasing tuples={want_orig}')
            else:
                want = len(_completions(t, ns, {}))
            res['obligations'] += 1
            if got != want:
                _viol(res, 'count', dict(kind='count', type=t, ns=ns, allperm=ap), dict(type=t, ns=ns, allperm=ap), {},
                      dict(count=got), dict(predicate_tuples=want))
            else:
                res['discharged'] += 1
    res['paths'] = 1
    res['sample'] = dict(harness=inst['label'])


def _run_linked_dv(inst, res):
    k, disc = inst['k'], inst['disc']
    c16._PROP_OVERRIDE[0] = PROP
    try:
        if disc is None:
            c16._set_harness(res, [('c',)]*k, list(range(k)), 0, 'real', label=inst['label'])
        else:
            def same_idx(terms, stored, src):
                return [z3val(stored[i]) == z3val(stored[src]) for i in range(len(terms)) if stored[i] is not None]

            def nat(specs, stored_n, src):
                return all(s_ == stored_n[src] for s_ in stored_n)
            if isinstance(disc, list):
                # different option counts: "the same option index" is only possible up to clamping into the own range
                c16._set_harness(res, [('d', n_) for n_ in disc], list(range(k)), 0, 'int', label=inst['label'])
            else:
                c16._set_harness(res, [('d', disc)]*k, list(range(k)), k-1, 'int', extra_claim=same_idx, label=inst['label'], native_extra=nat)
    finally:
        c16._PROP_OVERRIDE[0] = None


def replay(rec):
    a = rec['replay_args']
    cfg, inp = a['config'], a['inputs']
    if a['check'] == 'closed_form':
        got = native_closed(cfg['type'], inp['rows'], cfg['allperm'])
        want = [i for i, row in enumerate(inp['rows']) if _want_row(cfg['type'], row, cfg['allperm'])]
        print(f'get_valid_idx_combinations({inp["rows"]}, {cfg["type"]}, is_all_permanent={cfg["allperm"]}) -> {got}; predicate: {want}')
        return got != want
    if a['check'] == 'count':
        from adsg_core.graph.choice_constraints import count_n_combinations_max
        con, _, _ = _mk_constraint(cfg['type'], cfg['ns'])
        got = count_n_combinations_max(con, is_all_permanent=cfg['allperm'])
        print('count_n_combinations_max', got, 'expected', rec['expected'])
        return got != rec['expected'].get('predicate_tuples')
    if a['check'] == 'set_des_var_value':
        return c16.replay(rec)
    if a['check'] == 'encoder_level':
        res = new_result('replay')
        _run_enc(dict(label='replay', **{k_: cfg[k_] for k_ in ('type', 'k', 'n', 'placement', 'encoder')}), res)
        for v in res['violations']:
            print(v['signature'], v['observed'])
        return len(res['violations']) > 0
    if a['check'] in ('sequential', 'dsg_sequential'):
        inst = dict(rec['config'])
        res = new_result('replay')
        if a['check'] == 'sequential':
            _run_seq(dict(label='replay', type=cfg['type'], ns=cfg['ns'], allperm=cfg['allperm']), res)
        else:
            _run_dsg(dict(label='replay', type=cfg['type'], k=cfg['k'], n=cfg['n'], placement=cfg['placement']), res)
        for v in res['violations']:
            print(v['signature'], v['input'], v['observed'], v['expected'])
        return len(res['violations']) > 0
    return False
