"""
Shared driver for the per-property checks: instance sweep (parallel), verdict bookkeeping, native replay files,
known findings, evidence files, exit codes.

Exit codes: 0 = no violation among concluded instances (and enough concluded); 1 = reproduced violation not listed in
known_findings.json (prints `VIOLATION property=<id> replay=<path>`); 2 = harness error (nothing is claimed).
"""
import os
import sys
import json
import time
import glob
import hashlib
import argparse
import tempfile
import traceback
import importlib
import multiprocessing as mp

VERIF = os.path.dirname(os.path.dirname(os.path.abspath(__file__)))
# The registered commands use the defaults (/repo, /verif/evidence, /verif/replays). The overrides exist for the
# development sweep over seeded changes (tools/sweep_seeded.py), which runs the checks against a scratch copy of the
# repository without touching /repo or the committed evidence.
REPO = os.environ.get('VERIF_REPO', '/repo').rstrip('/')
EVIDENCE_DIR = os.environ.get('VERIF_EVIDENCE_DIR', os.path.join(VERIF, 'evidence'))
REPLAY_DIR = os.environ.get('VERIF_REPLAY_DIR', os.path.join(VERIF, 'replays'))
KNOWN_FILE = os.path.join(VERIF, 'known_findings.json')
if REPO != '/repo':
    sys.path.insert(0, REPO)

HOLDS, VIOLATION, INCONCLUSIVE, HARNESS_ERROR, SKIPPED = 'holds', 'violation', 'inconclusive', 'harness_error', 'skipped'


_CACHE_DIRS = []


def isolate_cache():
    """appdirs cache -> fresh temp dir (the checks neither read nor write the user's ADSG cache). The directories live
    under one per-run directory (VERIF_RUN_TMP, removed when the run ends); outside a run they are removed at exit."""
    base = os.environ.get('VERIF_RUN_TMP')
    if base and os.path.isdir(base):
        d = tempfile.mkdtemp(prefix='cache_', dir=base)
    else:
        d = tempfile.mkdtemp(prefix='adsg_verif_cache_')
        if not _CACHE_DIRS:
            import atexit
            atexit.register(cleanup_caches)
    _CACHE_DIRS.append(d)
    os.environ['XDG_CACHE_HOME'] = d
    return d


def cleanup_caches(keep=None):
    import shutil
    for d in list(_CACHE_DIRS):
        if d != keep:
            shutil.rmtree(d, ignore_errors=True)
            _CACHE_DIRS.remove(d)


class InstanceResult(dict):
    """status, label, obligations (int), discharged (int), paths, decisions, validated, solver_queries, solver_s,
    violations: [record], note, sample, functions: [qualified names], stubs: [...]"""


def new_result(label):
    return InstanceResult(status=HOLDS, label=label, obligations=0, discharged=0, paths=0, decisions=0, validated=0,
                          solver_queries=0, solver_s=0., violations=[], notes=[], sample=None, functions=[],
                          stubs=[], wall_s=0.)


def _jsonable(o):
    import numpy as np
    import fractions
    if isinstance(o, dict):
        return {str(k): _jsonable(v) for k, v in o.items()}
    if isinstance(o, (list, tuple, set, frozenset)):
        return [_jsonable(v) for v in o]
    if isinstance(o, np.ndarray):
        return _jsonable(o.tolist())
    if isinstance(o, np.generic):
        return _jsonable(o.item())
    if isinstance(o, fractions.Fraction):
        return {'fraction': [o.numerator, o.denominator], 'float': float(o)}
    if isinstance(o, float):
        if o != o:
            return 'nan'
        if o in (float('inf'), float('-inf')):
            return 'inf' if o > 0 else '-inf'
        return o
    if isinstance(o, (int, str, bool)) or o is None:
        return o
    return repr(o)


def violation_record(prop, check, signature, config, inputs, observed, expected, replay_args=None):
    """A reproduced violation. `signature` identifies what fails (used to match known findings)."""
    return _jsonable(dict(property=prop, check=check, signature=signature, config=config, input=inputs,
                          observed=observed, expected=expected, replay_args=replay_args))


def load_known():
    if not os.path.exists(KNOWN_FILE):
        return dict(findings=[], fixed=[])
    with open(KNOWN_FILE) as fp:
        return json.load(fp)


def match_known(record, known):
    """A finding matches if property and check are equal and every key of its `match` dict equals the record's
    signature entry (the signature is a dict of what fails: configuration + input class)."""
    for f in known.get('findings', []):
        checks = f.get('check')
        checks = checks if isinstance(checks, list) else [checks]
        if f.get('property') != record['property'] or record['check'] not in checks:
            continue
        sig = record['signature']
        ok = True
        for k, v in f.get('match', {}).items():
            got = _jsonable(sig.get(k))
            if isinstance(v, list) and not isinstance(got, list):
                ok = ok and got in v  # one of the listed values
            else:
                ok = ok and got == v
        if ok:
            return f
    return None


def _worker(args):
    mod_name, inst, tier, seed, cap_s = args
    t0 = time.time()
    worker_cache = os.environ.get('XDG_CACHE_HOME')
    try:
        return _worker_inner(mod_name, inst, tier, seed, t0)
    finally:
        # cache directories an instance made for itself (two problems in one cache, ...) go away with the instance
        cleanup_caches(keep=worker_cache)
        if worker_cache:
            os.environ['XDG_CACHE_HOME'] = worker_cache


def _worker_inner(mod_name, inst, tier, seed, t0):
    try:
        mod = importlib.import_module(mod_name)
        res = mod.run_instance(inst, tier=tier, seed=seed)
    except BaseException as e:  # noqa
        label = str(inst.get('label', inst) if isinstance(inst, dict) else inst)
        res = new_result(label)
        where = _raised_in_library(e)
        if where is not None:
            # the library itself raised while the harness was using it the way it does on the unchanged tree (where no
            # instance raises): what the property promises for this instance cannot hold - a violation, replayed by
            # running the instance again
            mod = importlib.import_module(mod_name)
            res['status'] = VIOLATION
            res['violations'].append(violation_record(
                getattr(mod, 'PROP', '?'), 'instance', dict(kind='library_raises', exc=type(e).__name__, where=where, instance=label),
                dict(instance=label), None, f'{type(e).__name__}: {e}', 'the instance runs to its end as on the unchanged tree',
                replay_args=dict(check='instance_raises', label=label, tier=tier, seed=seed)))
        else:
            res['status'] = HARNESS_ERROR
        res['notes'].append(f'{type(e).__name__}: {e}\n{traceback.format_exc()[-1500:]}')
    res['wall_s'] = round(time.time()-t0, 3)
    return _jsonable(res)


def _raised_in_library(e):
    """'<file>:<function>' if the exception was raised by code of the library under test (innermost frame inside the
    repository), else None. Resource and control-flow exceptions are never attributed to the library."""
    if not isinstance(e, Exception) or isinstance(e, (MemoryError, RecursionError, TimeoutError)):
        return None
    repo = os.path.realpath(os.environ.get('VERIF_REPO', '/repo'))
    tb = e.__traceback__
    last = None
    while tb is not None:
        last = tb
        tb = tb.tb_next
    if last is None:
        return None
    fn = os.path.realpath(last.tb_frame.f_code.co_filename)
    if fn.startswith(repo+os.sep) and os.sep+'tests'+os.sep not in fn:
        return f'{os.path.relpath(fn, repo)}:{last.tb_frame.f_code.co_name}'
    return None


_POOL_INIT_DONE = False


def _pool_init():
    isolate_cache()
    import warnings
    warnings.filterwarnings('ignore')


def run_check(prop, mod_name, tier, seed, jobs=None, min_concluded=0.9, only=None):
    import shutil
    run_tmp = tempfile.mkdtemp(prefix='adsg_verif_run_')
    os.environ['VERIF_RUN_TMP'] = run_tmp
    try:
        return _run_check(prop, mod_name, tier, seed, jobs=jobs, min_concluded=min_concluded, only=only)
    finally:
        os.environ.pop('VERIF_RUN_TMP', None)
        shutil.rmtree(run_tmp, ignore_errors=True)


def _run_check(prop, mod_name, tier, seed, jobs=None, min_concluded=0.9, only=None):
    t0 = time.time()
    isolate_cache()
    mod = importlib.import_module(mod_name)
    instances = mod.instances(tier=tier, seed=seed)
    if only is not None:
        instances = [i for i in instances if only in str(i.get('label'))]
    jobs = jobs or min(16, os.cpu_count() or 4)
    cap_s = getattr(mod, 'INSTANCE_CAP_S', 120)
    work = [(mod_name, inst, tier, seed, cap_s) for inst in instances]
    results = []
    if jobs <= 1 or len(work) <= 1:
        for w in work:
            results.append(_worker(w))
    else:
        ctx = mp.get_context('fork')
        with ctx.Pool(jobs, initializer=_pool_init, maxtasksperchild=getattr(mod, 'MAX_TASKS_PER_CHILD', None)) as pool:
            for r in pool.imap_unordered(_worker, work, chunksize=getattr(mod, 'CHUNK', 1)):
                results.append(r)
    results.sort(key=lambda r: r['label'])
    return finish(prop, mod, tier, seed, results, t0, min_concluded)


def finish(prop, mod, tier, seed, results, t0, min_concluded=0.9):
    known = load_known()
    os.makedirs(EVIDENCE_DIR, exist_ok=True)
    n = len(results)
    # an exploration may serve two properties (C10 carries the connection-variable part of C07): each check reports
    # only the violations of its own property
    for r in results:
        r['violations'] = [v for v in r['violations'] if v['property'] == prop]
        if r['status'] == VIOLATION and not r['violations']:
            r['status'] = HOLDS
    # instances a tier defers (too large for its budget; the thorough tier runs them) are listed, not counted
    skipped = [r for r in results if r['status'] == SKIPPED]
    results = [r for r in results if r['status'] != SKIPPED]
    n = len(results)
    by = {s: [r for r in results if r['status'] == s] for s in (HOLDS, VIOLATION, INCONCLUSIVE, HARNESS_ERROR)}
    new_violations, known_hits = [], {}
    for r in results:
        for rec in r['violations']:
            k = match_known(rec, known)
            if k is not None:
                known_hits.setdefault(k['id'], (k, []))[1].append(rec)
            else:
                new_violations.append(rec)

    lines = []
    for kid, (k, recs) in sorted(known_hits.items()):
        lines.append(f'KNOWN-FINDING: property={prop} {k["what"]} [{kid}; {len(recs)} instance(s)]')

    replay_paths = []
    if new_violations:
        os.makedirs(os.path.join(REPLAY_DIR, prop), exist_ok=True)
        seen = set()
        for rec in new_violations:
            h = hashlib.sha1(json.dumps(rec, sort_keys=True).encode()).hexdigest()[:12]
            if h in seen:
                continue
            seen.add(h)
            path = os.path.join(REPLAY_DIR, prop, f'{h}.json')
            rec = dict(rec)
            rec['replay_cmd'] = f'cd {VERIF} && .venv/bin/python -m checks.run {prop} --replay {path}'
            with open(path, 'w') as fp:
                json.dump(rec, fp, indent=1)
            replay_paths.append(path)
            if len(replay_paths) <= 25:
                lines.append(f'VIOLATION property={prop} replay={path}')
        if len(replay_paths) > 25:
            lines.append(f'... {len(replay_paths)-25} further violation replay files under {REPLAY_DIR}/{prop}')

    concluded = len(by[HOLDS])+len([r for r in results if r['status'] == VIOLATION])
    harness_err = len(by[HARNESS_ERROR]) > 0
    too_few = n == 0 or concluded < min_concluded*n

    tot = lambda key: sum(r.get(key, 0) or 0 for r in results)  # noqa
    functions = sorted({f for r in results for f in r.get('functions', [])})
    stubs = sorted({f for r in results for f in r.get('stubs', [])})
    samples = [r['sample'] for r in results if r.get('sample') is not None][:6]
    meta = getattr(mod, 'META', {})
    coverage = dict(
        states=max(1, tot('paths')), transitions=max(1, tot('decisions')),
        traces_validated_against_impl=tot('validated'),
        samples=samples or [dict(note='no instance produced a sample', labels=[r['label'] for r in results[:5]])],
        evaluations=n, distinct_nontrivial=len({r['label'] for r in results if r.get('paths', 0) > 1 or r.get('obligations', 0) > 0}),
        rule='one evaluation = one configuration instance around a symbolic core; an instance is non-trivial if its '
             'exploration produced more than one path or discharged at least one solver obligation',
        obligations=tot('obligations'), discharged=tot('discharged'),
        instances=n, instances_hold=len(by[HOLDS]), instances_violated=len(by[VIOLATION]),
        instances_inconclusive=len(by[INCONCLUSIVE]), instances_harness_error=len(by[HARNESS_ERROR]),
        inconclusive=[dict(label=r['label'], reason=r['notes'][-1] if r['notes'] else '') for r in by[INCONCLUSIVE]][:40],
        harness_errors=[dict(label=r['label'], reason=(r['notes'][-1] if r['notes'] else '')[:600]) for r in by[HARNESS_ERROR]][:20],
        solver_queries=tot('solver_queries'), solver_s=round(tot('solver_s'), 2),
        functions_executed_symbolically=functions or meta.get('functions', []),
        functions_declared=meta.get('functions', []),
        bounds=meta.get('bounds', {}), outside_claim=meta.get('outside', []),
        stubs_hit=stubs, stubs_declared=meta.get('stubs', []),
        slowest_instances=[dict(label=r['label'], wall_s=r.get('wall_s'), paths=r.get('paths'), notes=r['notes'][:3])
                           for r in sorted(results, key=lambda r: -(r.get('wall_s') or 0))[:8]],
        notes=[dict(label=r['label'], notes=r['notes'][:4]) for r in results if r['notes'] and r['status'] == HOLDS][:20],
        deferred_by_this_tier=[dict(label=r['label'], reason=(r['notes'][-1] if r['notes'] else '')) for r in skipped][:60],
        n_deferred=len(skipped),
        second_solver_queries=sum(len(r.get('second_solver') or []) for r in results),
        second_solver_samples=[x for r in results for x in (r.get('second_solver') or [])][:6],
        known_findings_hit=sorted(known_hits.keys()),
        new_violations=len(replay_paths),
        exhaustive=False,
        explanation=meta.get('explanation', ''),
        engine='symx (path-enumerating symbolic execution of /repo functions, z3 %s)' % _z3_version(),
        repo_head=_repo_head(),
    )
    ev = dict(property_id=prop, tier=tier, seed=int(seed), level=meta.get('level', 'model_checking'),
              coverage=coverage, assumptions=meta.get('assumptions', []), wall_s=round(time.time()-t0, 2),
              violations=len(replay_paths))
    with open(os.path.join(EVIDENCE_DIR, f'{prop}.json'), 'w') as fp:
        json.dump(ev, fp, indent=1)

    for ln in lines:
        print(ln)
    n_known_only = len([r for r in by[VIOLATION] if all(match_known(v, known) is not None for v in r['violations'])])
    print(f'[{prop}/{tier}] instances={n} hold={len(by[HOLDS])} violated={len(by[VIOLATION])-n_known_only} '
          f'known_findings_only={n_known_only} deferred={len(skipped)} '
          f'inconclusive={len(by[INCONCLUSIVE])} harness_error={len(by[HARNESS_ERROR])} paths={tot("paths")} '
          f'obligations={tot("discharged")}/{tot("obligations")} solver_queries={tot("solver_queries")} '
          f'solver_s={tot("solver_s"):.1f} wall_s={time.time()-t0:.1f}')
    if replay_paths:
        return 1
    if harness_err or too_few:
        for r in (by[HARNESS_ERROR]+by[INCONCLUSIVE])[:5]:
            print(f'  {r["status"]}: {r["label"]}: {(r["notes"][-1] if r["notes"] else "")[:800]}', file=sys.stderr)
        print(f'HARNESS-ERROR property={prop}: harness_errors={len(by[HARNESS_ERROR])} concluded={concluded}/{n}')
        return 2
    return 0


def _z3_version():
    try:
        import z3
        return z3.get_version_string()
    except Exception:
        return '?'


def _repo_head():
    try:
        import subprocess
        h = subprocess.run(['git', '-C', REPO, 'rev-parse', '--short', 'HEAD'], capture_output=True, text=True).stdout.strip()
        d = subprocess.run(['git', '-C', REPO, 'status', '--porcelain', '--untracked-files=no'], capture_output=True, text=True).stdout.strip()
        return h+('+dirty' if d else '')
    except Exception:
        return '?'


class FuncTracer:
    """records qualified names of /repo functions entered while active (sys.setprofile); used on a sample of runs"""

    def __init__(self):
        self.names = set()

    def _prof(self, frame, event, arg):
        if event == 'call':
            co = frame.f_code
            fn = co.co_filename
            if fn.startswith(REPO+'/adsg_core/'):
                self.names.add(f'{fn[len(REPO)+1:-3].replace("/", ".")}.{co.co_qualname}')

    def __enter__(self):
        sys.setprofile(self._prof)
        return self

    def __exit__(self, *a):
        sys.setprofile(None)
        return False


def require_exhaustive(res, ex):
    """the path summary must cover the precondition (pre and not(pc_1 or .. or pc_k) unsat); otherwise nothing is claimed"""
    res['obligations'] += 1
    if ex.exhaustive():
        res['discharged'] += 1
        return True
    res['status'] = HARNESS_ERROR
    res['notes'].append('path summary is not exhaustive')
    return False


def absorb(res, ex):
    """add the statistics of an Exploration to an instance result"""
    res['paths'] += len(ex.paths)
    res['decisions'] += ex.stats.decisions
    res['solver_queries'] += ex.stats.solver_queries
    res['solver_s'] += ex.stats.solver_s
    for s in ex.stats.stub_sites:
        if s not in res['stubs']:
            res['stubs'].append(s)


def main(argv=None):
    ap = argparse.ArgumentParser()
    ap.add_argument('prop')
    ap.add_argument('--tier', default=os.environ.get('VERIF_TIER', 'quick'), choices=['quick', 'thorough'])
    ap.add_argument('--seed', type=int, default=int(os.environ.get('VERIF_SEED', '0') or 0))
    ap.add_argument('--jobs', type=int, default=None)
    ap.add_argument('--only', default=None)
    ap.add_argument('--replay', default=None)
    a = ap.parse_args(argv)
    prop = a.prop.upper()
    mod_name = f'checks.{prop.lower()}'
    if a.replay:
        isolate_cache()
        mod = importlib.import_module(mod_name)
        with open(a.replay) as fp:
            rec = json.load(fp)
        ra = rec.get('replay_args') or {}
        if ra.get('check') == 'instance_raises':
            ok = False
            for inst in mod.instances(ra.get('tier', 'quick'), ra.get('seed', 0)):
                if str(inst.get('label')) == ra['label']:
                    try:
                        mod.run_instance(inst, tier=ra.get('tier', 'quick'), seed=ra.get('seed', 0))
                        print('the instance runs to its end')
                    except Exception as e:  # noqa
                        where = _raised_in_library(e)
                        print(f'{type(e).__name__}: {e} (raised in {where})')
                        ok = where is not None
                    break
        else:
            ok = mod.replay(rec)
        print('REPRODUCED' if ok else 'NOT REPRODUCED')
        return 1 if ok else 0
    return run_check(prop, mod_name, a.tier, a.seed, jobs=a.jobs, only=a.only)
