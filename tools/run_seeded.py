"""
Apply a seeded change to /repo, run checks against it, undo it.  (Development tool, not a registered check.)

  python tools/run_seeded.py <dir-with-patch.diff> [--checks C09,C10] [--tier quick] [--suite] [--demo]

--suite  also runs the pinned test suite with the patch applied (must stay at 142 passed)
--demo   also runs demo.py (if present) with and without the patch
Prints one line per check: CAUGHT / missed / harness-error, and writes <dir>/result.json.
"""
import os
import re
import sys
import json
import time
import argparse
import subprocess

VERIF = os.path.dirname(os.path.dirname(os.path.abspath(__file__)))
ALL = ['C07', 'C09', 'C10', 'C11', 'C13', 'C15', 'C16', 'C17']
SUITE = 'cd /repo && XDG_CACHE_HOME=/tmp/seeded_suite_cache /venv/bin/python -m pytest -ra -q -p no:cacheprovider --timeout=900 --continue-on-collection-errors'


def sh(cmd, timeout=3600, env=None):
    e = dict(os.environ)
    e.update(env or {})
    r = subprocess.run(cmd, shell=True, capture_output=True, text=True, timeout=timeout, env=e)
    return r.returncode, r.stdout+r.stderr


def repo_clean():
    rc, out = sh('git -C /repo status --porcelain --untracked-files=no')
    return out.strip() == ''


def main():
    ap = argparse.ArgumentParser()
    ap.add_argument('dir')
    ap.add_argument('--checks', default=None)
    ap.add_argument('--tier', default='quick')
    ap.add_argument('--suite', action='store_true')
    ap.add_argument('--demo', action='store_true')
    ap.add_argument('--seed', default='0')
    a = ap.parse_args()
    d = os.path.abspath(a.dir)
    patch = os.path.join(d, 'patch.diff')
    meta = {}
    if os.path.exists(os.path.join(d, 'meta.json')):
        meta = json.load(open(os.path.join(d, 'meta.json')))
    checks = a.checks.split(',') if a.checks else ([meta.get('property')] if meta.get('property') in ALL else ALL)
    if not repo_clean():
        print('refusing: /repo has uncommitted changes')
        return 2
    result = dict(dir=d, checks={}, tier=a.tier, seed=a.seed)
    demo = os.path.join(d, 'demo.py')
    if a.demo and os.path.exists(demo):
        rc, out = sh(f'cd /repo && XDG_CACHE_HOME=/tmp/seeded_demo_cache /venv/bin/python {demo}')
        result['demo_clean_exit'] = rc
    rc, out = sh(f'git -C /repo apply {patch}')
    if rc != 0:
        print('patch does not apply:', out[-400:])
        return 2
    try:
        if a.demo and os.path.exists(demo):
            rc, out = sh(f'cd /repo && XDG_CACHE_HOME=/tmp/seeded_demo_cache /venv/bin/python {demo}')
            result['demo_patched_exit'] = rc
            result['demo_patched_tail'] = out[-300:]
        if a.suite:
            rc, out = sh(SUITE)
            last = out.strip().split('\n')[-1]
            result['suite'] = last
            print('suite:', last)
        for c in checks:
            t = time.time()
            rc, out = sh(f'cd {VERIF} && .venv/bin/python -m checks.run {c} --tier {a.tier}', env={'VERIF_SEED': a.seed})
            viol = re.findall(r'VIOLATION property=(\S+) replay=(\S+)', out)
            status = 'CAUGHT' if rc == 1 and viol else ('harness-error' if rc == 2 else ('missed' if rc == 0 else f'exit {rc}'))
            sigs = []
            for _, path in viol[:3]:
                try:
                    r = json.load(open(path))
                    sigs.append(dict(check=r['check'], signature=r['signature'], input=r['input']))
                except Exception:  # noqa
                    pass
            result['checks'][c] = dict(status=status, exit=rc, n_violation_lines=len(viol), wall_s=round(time.time()-t, 1),
                                       summary=out.strip().split('\n')[-1][:300], examples=sigs)
            print(f'{c}: {status} ({len(viol)} violation lines, {time.time()-t:.0f}s) {out.strip().splitlines()[-1][:160]}')
    finally:
        sh('git -C /repo checkout -- .')
        # replays written against the patched tree are not evidence of anything on the real tree
        sh(f'rm -rf {VERIF}/replays/*')
    # evidence files were rewritten against the patched tree: regenerate is the caller's job (git checkout evidence)
    sh(f'git -C {VERIF} checkout -- evidence')
    json.dump(result, open(os.path.join(d, 'result.json'), 'w'), indent=1)
    return 0


if __name__ == '__main__':
    sys.exit(main())
