"""
C15 - fixing a design variable restricts the design space exactly; freeing restores it (DESIGN.md section 4).

Symbolic stage: the real GraphProcessor.fix_des_var runs with the value an unbounded symbolic integer (real for
continuous variables): the range test forks symbolically (one path for all values below, one for all values above),
accepted values are split one per path. Native stage (continuation of each accepting path, on a second processor, with
the now-determined plain value): restriction laws against the enumeration of a fresh processor, decodes, counts,
fix/decode/free sequences up to length 4, restoration after free.
"""
import itertools
import numpy as np
import z3
from checks.common import *
from pools import dsg as dsg_pool
from symx import *

PROP = 'C15'
META = dict(
    level='model_checking',
    functions=['adsg_core.optimization.graph_processor.GraphProcessor.fix_des_var / free_des_var / _update_comb_fixed_mask / '
               'is_fixed / fixed_value / des_vars / _get_all_des_var_values',
               'then, on each accepting path, natively: get_all_discrete_x, get_graph, get_n_valid_designs, '
               'HierarchyAnalyzer.get_available_combinations_mask / get_graph / get_opt_idx'],
    bounds=dict(value='any integer (discrete) / any real (continuous)', templates='hand-written DSG templates (pools/dsg.py) and seeded random graphs without connection choices / choice constraints (pools/dsg_random.py: 10 per run in the quick tier, 60 in the thorough tier), '
                '<= 6 design variables, <= 64 valid designs', sequences='fix; fix,decode*,free; fix,free,fix,free; fix v1,fix v2,free (same variable); fix a,fix b,free,free in '
                'both orders (<= 4 operations)'),
    outside=['graphs other than the templates', 'the fast selection-choice encoder on templates other than the nine in FAST_TEMPLATES and a few seeded random graphs (there the designs of a problem are the decodes of all declared vectors, it does not enumerate)', 'statistics other than n_valid / n_declared / n_discrete of the two total rows',
             'continuous variables: accept/reject for all reals and disappearance from des_vars are decided; decodes after '
             'fixing use one representative value (float() concretises it)'],
    stubs=['EncoderSelector.get_best_assignment_manager -> default lazy encoder', 'formatting of the ValueError message in '
           'fix_des_var (the value only goes into the message)', 'XDG_CACHE_HOME redirected'],
    assumptions=['the reference enumeration comes from a freshly built processor on a freshly built copy of the same template'],
    explanation='bounded symbolic execution of fix_des_var; the restriction/restoration laws are the native continuation of each path',
)
INSTANCE_CAP_S = 300


def instances(tier, seed):
    out = []
    names = ['two_indep', 'nested', 'nested3', 'incompat', 'incompat3', 'shared_option', 'dv', 'dv_linked', 'sel_linked', 'sel_forced_linked', 'dv_or_existence', 'dv_same_name', 'conn_cond', 'conn_dv', 'conn_opt_src',
             'conn_infeasible_scenario', 'conn_infeasible_dv', 'conn_two_infeasible']
    if tier == 'thorough':
        names = list(dsg_pool.TEMPLATES)
    names = names+[f'fast:{n}' for n in FAST_TEMPLATES]
    # seeded random graphs (pools/dsg_random.py): selection choices, shared options, OR-existence, incompatibilities,
    # design-variable nodes; a different batch per VERIF_SEED
    n_rnd, n_rnd_fast = (10, 4) if tier == 'quick' else (60, 20)
    rnd_seeds = list(range(1000*seed, 1000*seed+n_rnd))
    names = names+[f'rnd{s}' for s in rnd_seeds]+[f'fast:rnd{s}' for s in rnd_seeds[:n_rnd_fast]]
    for name in names:
        gp, g, info = _mk(name)
        n = len(gp.all_des_vars)
        for k in range(n):
            out.append(dict(label=f'single {name} var={k}', kind='single', template=name, k=k))
        pairs = [(a, b) for a in range(n) for b in range(n) if a != b]
        if tier == 'quick':
            pairs = pairs[:3] if not name.startswith('fast:') else pairs[:1]
        for a, b in pairs:
            out.append(dict(label=f'pair {name} vars={a},{b}', kind='pair', template=name, a=a, b=b))
    return out


def _mk(name):
    """template name, or 'fast:<template>' for the fast selection-choice encoder"""
    if name.startswith('fast:'):
        from adsg_core.optimization.graph_processor import SelChoiceEncoderType
        return dsg_pool.make_processor(name[5:], SelChoiceEncoderType.FAST)
    return dsg_pool.make_processor(name)


FAST_TEMPLATES = ['two_indep', 'nested', 'nested3', 'incompat', 'incompat3', 'shared_option', 'dv', 'dv_or_existence', 'forced']


def _viol(res, check, sig, config, inputs, observed, expected):
    res['status'] = VIOLATION
    same = [v for v in res['violations'] if v['signature'].get('kind') == sig.get('kind')]
    if len(same) >= 2:
        return
    res['violations'].append(violation_record(PROP, check, sig, config, inputs, observed, expected,
                                              replay_args=dict(check=check, config=config, inputs=inputs)))


# ---------------------------------------------------------------------------------------------------------------------
# native observations


def _rows(x, act):
    return [tuple(float(v) for v in r) for r in np.array(x).tolist()], [tuple(bool(v) for v in r) for r in np.array(act).tolist()]


_ORDER = [0]


def observe(gp, decode_rows=None):
    """what a user can see of a processor: variables, enumeration, counts, decodes of the given rows"""
    dvs = [(d.name, d.n_opts if d.is_discrete else tuple(d.bounds)) for d in gp.des_vars]
    if gp.get_all_discrete_x() is None:
        return _observe_fast(gp, dvs, decode_rows)
    # the enumeration of the unrestricted problem (with_fixed=False) must not depend on what is fixed, nor on whether it
    # is asked before or after the restricted one (alternating order per call)
    _ORDER[0] += 1
    full_first = None
    if _ORDER[0] % 2 == 0:
        xf, af = gp.get_all_discrete_x(with_fixed=False)
        full_first = _rows(xf, af)
    x, act = gp.get_all_discrete_x()
    xf, af = gp.get_all_discrete_x(with_fixed=False)
    full = _rows(xf, af)
    full_cont = [not d.is_discrete for d in gp.all_des_vars]
    full = (sorted(tuple('cont' if (c_ and a_) else v for v, a_, c_ in zip(r, a, full_cont)) for r, a in zip(*full)), sorted(full[1]))
    if full_first is not None:
        ff = (sorted(tuple('cont' if (c_ and a_) else v for v, a_, c_ in zip(r, a, full_cont)) for r, a in zip(*full_first)), sorted(full_first[1]))
        if ff != full:
            full = ('with_fixed=False differs when asked before/after the restricted enumeration', ff[0][:3], full[0][:3])
    rows, acts = _rows(x, act)
    n_valid = gp.get_n_valid_designs(with_fixed=True)
    # counting active continuous variables as two-level variables (include_cont): 2^(active continuous) per listed design
    cont_cols = [not d.is_discrete for d in gp.des_vars]
    want_cont = sum(2**sum(1 for a_, c_ in zip(a, cont_cols) if a_ and c_) for a in acts)
    try:
        n_valid_cont = int(gp.get_n_valid_designs(with_fixed=True, include_cont=True))
    except Exception as e:  # noqa
        n_valid_cont = f'{type(e).__name__}: {e}'
    dec = []
    cont = [not d.is_discrete for d in gp.des_vars]

    def norm(xi, ai):
        # get_all_discrete_x lists an *active* continuous variable at the placeholder 0 (only discrete vectors are
        # enumerated); a decode clamps that into the bounds. Active continuous entries are therefore not compared.
        return tuple('cont' if (c_ and a_) else float(v) for v, a_, c_ in zip(xi, ai, cont)), tuple(bool(v) for v in ai)
    rows, acts = [norm(r, a)[0] for r, a in zip(rows, acts)], acts
    for r in (decode_rows if decode_rows is not None else rows):
        r = [0. if v == 'cont' else v for v in r]
        for create in (True, False):  # materialising and non-materialising decode must agree (and both are observed)
            try:
                _, xi, ai = gp.get_graph(list(r), create=create)
                d = norm(xi, ai)
            except Exception as e:  # noqa
                d = f'{type(e).__name__}: {e}'
            if create:
                first = d
            elif d != first:
                first = ('create=True', first, 'create=False', d)
        dec.append(first)
    # statistics table: the "total-design-problem" row describes the restricted problem, "total-design-space" the free one
    stats = None
    try:
        df = gp.get_statistics()
        stats = dict(problem=[int(df.loc['total-design-problem', c]) for c in ('n_valid', 'n_declared', 'n_discrete')],
                     space=[int(df.loc['total-design-space', c]) for c in ('n_valid', 'n_declared', 'n_discrete')])
        n_decl = 1
        for d in gp.des_vars:
            if d.is_discrete:
                n_decl *= d.n_opts
        want = [len(rows), n_decl, len([d for d in gp.des_vars if d.is_discrete])]
        if stats['problem'] != want:
            stats['mismatch'] = dict(table=stats['problem'], expected=want)
    except Exception as e:  # noqa
        stats = dict(error=f'{type(e).__name__}: {e}')
    # design-variable nodes that are fixed carry the fixed value on decoded instances (vector given as plain ints)
    fixed_bad = []
    fixed_nodes = [(gp.all_des_vars[k_], v_) for k_, v_ in getattr(gp, '_fixed_values', {}).items()
                   if type(gp.all_des_vars[k_].node).__name__ == 'DesignVariableNode']
    if fixed_nodes:
        for r in rows[:8]:
            vec = [0 if v == 'cont' else (int(v) if float(v).is_integer() else v) for v in r]
            try:
                g_i, _, _ = gp.get_graph(list(vec))
            except Exception:  # noqa (reported through the decodes)
                continue
            for dv_, v_ in fixed_nodes:
                if dv_.node in g_i.graph.nodes and g_i.des_var_value(dv_.node) != v_:
                    fixed_bad.append(f'{dv_.name} fixed to {v_}, instance of {vec} carries {g_i.des_var_value(dv_.node)}')
    return dict(dvs=dvs, rows=rows, acts=acts, n_valid=int(n_valid), decodes=dec, full=full, stats=stats,
                count_cont=(n_valid_cont, want_cont), fixed_bad=fixed_bad[:3])


def _observe_fast(gp, dvs, decode_rows=None):
    """the fast encoder does not enumerate: the designs of the problem are the decodes of all declared vectors
    (continuous variables at one probe value), with and without materialising the instance"""
    cont = [not d.is_discrete for d in gp.des_vars]

    def norm(xi, ai):
        return tuple('cont' if (c_ and a_) else float(v) for v, a_, c_ in zip(xi, ai, cont)), tuple(bool(v) for v in ai)

    def dec(v):
        out = []
        for create in (True, False):
            try:
                _, xi, ai = gp.get_graph(list(v), create=create)
                out.append(norm(xi, ai))
            except Exception as e:  # noqa
                out.append(f'{type(e).__name__}: {e}')
        return out
    designs, mismatch = {}, []
    for v in itertools.product(*[range(d.n_opts) if d.is_discrete else [sum(d.bounds)/2] for d in gp.des_vars]):
        for create, d in zip((True, False), dec(v)):
            if isinstance(d, str):
                mismatch.append((v, create, d))
            else:
                designs[d[0]] = d[1]
        a, b = dec(v)
        if a != b:
            mismatch.append((v, 'create=True', a, 'create=False', b))
    rows = sorted(designs, key=str)
    acts = [designs[r] for r in rows]
    decodes = []
    for r in (decode_rows if decode_rows is not None else rows):
        a, b = dec([0. if v == 'cont' else v for v in r])
        decodes.append(a if a == b else ('create=True', a, 'create=False', b))
    all_errors = bool(mismatch) and not designs  # no vector decodes at all: the (restricted) problem may simply be empty
    return dict(dvs=dvs, rows=rows, acts=acts, n_valid=len(rows), decodes=decodes, full='not enumerated by the fast encoder', stats=None,
                mismatch=[str(m) for m in mismatch[:3]], all_errors=all_errors)


def _drop(t, k):
    return tuple(v for i, v in enumerate(t) if i != k)


def check_restriction(res, name, fixed, obs_fixed, obs0, cfg, inputs):
    """fixed: dict index (in all_des_vars of the free problem) -> value"""
    ks = sorted(fixed)
    rows0, acts0 = obs0['rows'], obs0['acts']
    lower, upper = set(), set()
    for r, a in zip(rows0, acts0):
        must = all(a[k] and r[k] == fixed[k] for k in ks)
        may = all((not a[k]) or r[k] == fixed[k] for k in ks)
        red = tuple(v for i, v in enumerate(r) if i not in fixed)
        if must:
            lower.add(red)
        if may:
            upper.add(red)
    got = set(obs_fixed['rows'])
    sig = dict(template=name, fixed={str(k): v for k, v in fixed.items()})
    res['obligations'] += 1
    if obs_fixed['full'] != obs0['full']:
        _viol(res, 'fix', dict(kind='unrestricted_enumeration_changed', **sig), cfg, inputs,
              dict(with_fixed_false=str(obs_fixed['full'])[:400]), 'get_all_discrete_x(with_fixed=False) is the enumeration of the free problem')
    else:
        res['discharged'] += 1
    if obs_fixed.get('mismatch') and obs_fixed.get('all_errors') and not upper:
        # no original design is compatible with the fixed values: the restricted problem is empty and every decode fails.
        # How decoding fails for an empty design space is C01's subject, not C15's.
        res['notes'].append(f'empty restricted problem ({sig["fixed"]}): decoding raises {obs_fixed["mismatch"][0][-90:]}')
    elif obs_fixed.get('mismatch'):
        _viol(res, 'fix', dict(kind='decode_error_or_create_flag', **sig), cfg, inputs, obs_fixed['mismatch'],
              'every declared vector decodes, the same with and without materialising the instance')
    res['obligations'] += 4
    if len(got) != len(obs_fixed['rows']):
        _viol(res, 'fix', dict(kind='duplicate_rows', **sig), cfg, inputs, dict(rows=obs_fixed['rows']), 'each design once')
    else:
        res['discharged'] += 1
    if not lower <= got:
        _viol(res, 'fix', dict(kind='design_lost', **sig), cfg, inputs, dict(missing=sorted(lower-got)[:4], restricted=sorted(got)[:8]),
              'every original design in which the variable is active with that value is still present')
    else:
        res['discharged'] += 1
    if not got <= upper:
        _viol(res, 'fix', dict(kind='design_not_in_original', **sig), cfg, inputs, dict(extra=sorted(got-upper)[:4]),
              'every restricted design is an original design with that value or inactive')
    else:
        res['discharged'] += 1
    res['obligations'] += 1
    st = obs_fixed.get('stats') or {}
    if 'mismatch' in st or 'error' in st or st.get('space') != (obs0.get('stats') or {}).get('space'):
        _viol(res, 'fix', dict(kind='statistics', **sig), cfg, inputs, dict(stats=st, free=(obs0.get('stats') or {}).get('space')),
              'statistics describe the restricted problem (total-design-problem) and the free one (total-design-space)')
    else:
        res['discharged'] += 1
    if obs_fixed['n_valid'] != len(obs_fixed['rows']):
        _viol(res, 'fix', dict(kind='count', **sig), cfg, inputs, dict(n_valid=obs_fixed['n_valid'], rows=len(obs_fixed['rows'])), 'count == rows')
    else:
        res['discharged'] += 1
    _extra_obligations(res, obs_fixed, sig, cfg, inputs)
    # decodes of the restricted rows return themselves
    for r, a, d in zip(obs_fixed['rows'], obs_fixed['acts'], obs_fixed['decodes']):
        res['obligations'] += 1
        if d != (r, a):
            _viol(res, 'fix', dict(kind='decode_of_listed_row', **sig), cfg, dict(inputs, row=list(r)), dict(decode=d), dict(row=r, active=a))
        else:
            res['discharged'] += 1


def _extra_obligations(res, obs_fixed, sig, cfg, inputs):
    cc = obs_fixed.get('count_cont')
    if cc is not None:
        res['obligations'] += 1
        if cc[0] != cc[1]:
            _viol(res, 'fix', dict(kind='count_include_cont', **sig), cfg, inputs, dict(get_n_valid_designs_include_cont=cc[0]),
                  dict(sum_over_listed_designs_of_2_pow_active_continuous=cc[1]))
        else:
            res['discharged'] += 1
    if obs_fixed.get('fixed_bad'):
        _viol(res, 'fix', dict(kind='fixed_value_not_on_instance', **sig), cfg, inputs, obs_fixed['fixed_bad'], 'a fixed design-variable node carries the fixed value')


def check_same(res, name, what, obs, ref, cfg, inputs):
    res['obligations'] += 1
    diffs = [k for k in ('dvs', 'rows', 'acts', 'n_valid', 'decodes', 'full', 'stats') if obs[k] != ref[k]]
    if obs.get('mismatch') != ref.get('mismatch'):
        diffs.append('mismatch')
    if diffs:
        ex = {}
        for k in diffs[:2]:
            if k == 'mismatch':
                ex[k] = dict(got=obs.get(k), fresh=ref.get(k))
            elif isinstance(obs[k], list):
                idx = [i for i, (a, b) in enumerate(zip(obs[k], ref[k])) if a != b][:2]
                ex[k] = dict(first_diffs=[dict(i=i, got=obs[k][i], fresh=ref[k][i]) for i in idx], len=[len(obs[k]), len(ref[k])])
            else:
                ex[k] = dict(got=obs[k], fresh=ref[k])
        _viol(res, 'free', dict(kind=f'not_restored:{what}', template=name, differs=diffs), cfg, inputs, ex, 'same as a fresh processor')
    else:
        res['discharged'] += 1


# ---------------------------------------------------------------------------------------------------------------------


def run_instance(inst, tier='quick', seed=0):
    res = new_result(inst['label'])
    with FuncTracer() as tr:
        globals()[f'_run_{inst["kind"]}'](inst, res)
    res['functions'] = sorted(n for n in tr.names if 'graph_processor' in n or 'hierarchy' in n)[:60]
    return res


def _symbolic_fix(res, name, ks):
    """symbolic stage: fix the variables ks (indices in all_des_vars) in order with symbolic values.
    Returns list of (path, outcome) where outcome = ('rejected', i, exc) | ('accepted', [values])"""
    gp0, _, _ = _mk(name)
    kinds = [gp0.all_des_vars[k].is_discrete for k in ks]
    names = [f'v{i}' for i in range(len(ks))]

    def run():
        gp, g, info = _mk(name)
        vals = [sym_int(nm) if disc else sym_real(nm) for nm, disc in zip(names, kinds)]
        out = []
        for i, k in enumerate(ks):
            dv = gp.all_des_vars[k]
            before = [d.name for d in gp.des_vars]
            try:
                gp.fix_des_var(dv, vals[i])
            except (ValueError, RuntimeError) as e:
                after = [d.name for d in gp.des_vars]
                return 'rejected', i, type(e).__name__, before == after and not gp.is_fixed(dv), out
            ok = gp.is_fixed(dv) and dv not in gp.des_vars and len(gp.des_vars) == len(before)-1
            fv = gp.fixed_value(dv)
            if kinds[i]:
                out.append((int(vals[i]), ok, fv))  # the determined value is handed on as a plain int (case split)
            else:
                with representative():
                    out.append((float(vals[i]), ok, fv))
        return 'accepted', None, None, True, out
    ex = explore(run, max_paths=3000, time_cap_s=INSTANCE_CAP_S/2)
    absorb(res, ex)
    return ex, gp0, kinds, names


def _refix_rejected(res, name, k, v1, discrete, dv0, cfg):
    nm = 'w'

    def run():
        gp, g, info = _mk(name)
        dv = gp.all_des_vars[k]
        gp.fix_des_var(dv, v1)
        names = [d.name for d in gp.des_vars]
        w = sym_int(nm) if discrete else sym_real(nm)
        try:
            gp.fix_des_var(dv, w)
        except (ValueError, RuntimeError):
            fv = gp.fixed_value(dv) if gp.is_fixed(dv) else None
            return 'rejected', gp.is_fixed(dv) and fv == v1 and [d.name for d in gp.des_vars] == names
        return 'accepted', gp.is_fixed(dv)
    ex = explore(run, max_paths=3000, time_cap_s=INSTANCE_CAP_S/4)
    absorb(res, ex)
    if not ex.complete:
        res['status'] = INCONCLUSIVE
        res['notes'].append(f're-fix after fix {v1}: {ex.status}')
        return
    require_exhaustive(res, ex)
    w = z3.Int(nm) if discrete else z3.Real(nm)
    ref_obs = None
    for p in ex.paths:
        res['obligations'] += 1
        if p.kind == 'exc':
            _viol(res, 'fix', dict(kind='unexpected_exception', template=name, k=k, refix=True), cfg, dict(first=v1, path=str(p.pc)), repr(p.exc), 'accept or ValueError/RuntimeError')
            continue
        status, ok = p.value
        s = z3.Solver()
        s.add(p.cond(), z3.Not(_range_claim(dv0, w, status == 'accepted')))
        res['solver_queries'] += 1
        sound = str(s.check()) == 'unsat'
        s2 = z3.Solver()
        s2.add(p.cond())
        s2.check()
        mv = s2.model().eval(w, model_completion=True)
        mv = mv.as_long() if discrete else float(mv.as_fraction())
        if not sound:
            _viol(res, 'fix', dict(kind='accept_reject', template=name, k=k, refix=True), cfg, dict(first=v1, value=mv), status, 'rejected <=> out of range')
            continue
        res['discharged'] += 1
        if status == 'accepted':
            continue
        # native continuation with the model value: everything observable equals "fixed to v1"
        if ref_obs is None:
            ref, _, _ = _mk(name)
            ref.fix_des_var(ref.all_des_vars[k], v1)
            ref_obs = observe(ref)
        gp, _, _ = _mk(name)
        dv = gp.all_des_vars[k]
        gp.fix_des_var(dv, v1)
        observe(gp)
        try:
            gp.fix_des_var(dv, mv)
            nat = 'accepted'
        except (ValueError, RuntimeError):
            nat = 'rejected'
        if nat != 'rejected':
            res['status'] = HARNESS_ERROR
            res['notes'].append(f're-fix {v1} -> {mv}: path rejected, native accepted')
            continue
        inputs = dict(first=v1, rejected_value=mv)
        if not ok or not gp.is_fixed(dv):
            _viol(res, 'fix', dict(kind='rejected_but_changed', template=name, k=k, refix=True), cfg, inputs,
                  dict(is_fixed=gp.is_fixed(dv), des_vars=[d.name for d in gp.des_vars]), 'a rejected fix leaves the variable fixed to the earlier value')
            continue
        n_before = len(res['violations'])
        check_same(res, name, 'fix v1,rejected fix', observe(gp), ref_obs, cfg, inputs)
        gp.free_des_var(dv)
        res['validated'] += 1


def _range_claim(dv, v, accepted):
    if dv.is_discrete:
        inr = z3.And(v >= 0, v < dv.n_opts)
    else:
        inr = z3.And(v >= z3.RealVal(float(dv.bounds[0])), v <= z3.RealVal(float(dv.bounds[1])))
    return inr if accepted else z3.Not(inr)


def _is_conn_var(gp, k):
    return any(s <= k < e for _, _, _, s, e, _ in gp._conn_choice_data_map.values())


def _run_single(inst, res):
    name, k = inst['template'], inst['k']
    cfg = dict(template=name, k=k)
    ex, gp0, kinds, names = _symbolic_fix(res, name, [k])
    if not ex.complete:
        res['status'] = INCONCLUSIVE
        res['notes'].append(ex.status)
        return
    require_exhaustive(res, ex)
    dv0 = gp0.all_des_vars[k]
    is_conn = _is_conn_var(gp0, k)
    v = z3.Int(names[0]) if kinds[0] else z3.Real(names[0])
    obs0 = observe(gp0)
    accepted_vals = []
    for p in ex.paths:
        res['obligations'] += 1
        if p.kind == 'exc':
            _viol(res, 'fix', dict(kind='unexpected_exception', template=name, k=k), cfg, dict(path=str(p.pc)), repr(p.exc), 'accept or ValueError/RuntimeError')
            continue
        status, i, exc, unchanged, out = p.value
        s = z3.Solver()
        s.add(p.cond())
        if status == 'rejected':
            # rejected <=> out of range (or a connection-choice variable); processor unchanged
            s.add(z3.Not(z3.Or(_range_claim(dv0, v, False), z3.BoolVal(is_conn))))
            ok = str(s.check()) == 'unsat' and unchanged
        else:
            s.add(z3.Not(z3.And(_range_claim(dv0, v, True), z3.BoolVal(not is_conn))))
            val, okflag, fv = out[0]
            ok = str(s.check()) == 'unsat' and okflag
            accepted_vals.append(val)
        res['solver_queries'] += 1
        if ok:
            res['discharged'] += 1
        else:
            s2 = z3.Solver()
            s2.add(p.cond())
            s2.check()
            mv = s2.model().eval(v, model_completion=True)
            mv = mv.as_long() if kinds[0] else float(mv.as_fraction())
            # native replay
            gp, _, _ = _mk(name)
            try:
                gp.fix_des_var(gp.all_des_vars[k], mv)
                nat = 'accepted'
            except (ValueError, RuntimeError) as e:
                nat = f'rejected:{type(e).__name__}'
            in_range = (0 <= mv < dv0.n_opts) if kinds[0] else (dv0.bounds[0] <= mv <= dv0.bounds[1])
            want = 'accepted' if (in_range and not is_conn) else 'rejected'
            if not nat.startswith(want):
                _viol(res, 'fix', dict(kind='accept_reject', template=name, k=k, conn=is_conn), cfg, dict(value=mv), nat, want)
            elif not unchanged and status == 'rejected':
                _viol(res, 'fix', dict(kind='rejected_but_changed', template=name, k=k), cfg, dict(value=mv), 'processor changed', 'unchanged')
            else:
                res['status'] = HARNESS_ERROR
                res['notes'].append(f'path {p.pc} {p.value}: claim failed but native run agrees ({nat})')
        res['validated'] += 1
    # every in-range value must be accepted (unless connection-choice variable): covered by exhaustiveness + claims
    if kinds[0] and not is_conn:
        res['obligations'] += 1
        if sorted(accepted_vals) != list(range(dv0.n_opts)):
            _viol(res, 'fix', dict(kind='accepted_values', template=name, k=k), cfg, {}, sorted(accepted_vals), list(range(dv0.n_opts)))
        else:
            res['discharged'] += 1

    if not kinds[0] and not is_conn and accepted_vals:
        lo_, hi_ = dv0.bounds
        accepted_vals = list(accepted_vals)+[lo_+(hi_-lo_)*0.37]   # a second, non-integer value inside the bounds
    # native continuation of each accepting path
    for val in accepted_vals:
        inputs = dict(value=val)
        # S1: fix -> restriction laws
        gp, _, _ = _mk(name)
        dv = gp.all_des_vars[k]
        gp.fix_des_var(dv, val)
        if not kinds[0]:
            continue_cont = True
            # continuous: the column is gone, every other column is as in the free problem
            obs_f = observe(gp)
            res['obligations'] += 1
            want_rows = {_drop(r, k) for r in obs0['rows']}
            if set(obs_f['rows']) != want_rows:
                _viol(res, 'fix', dict(kind='continuous_fix_changes_rows', template=name, k=k), cfg, inputs, dict(rows=obs_f['rows'][:4]), 'free rows without that column')
            else:
                res['discharged'] += 1
            _extra_obligations(res, obs_f, dict(template=name, fixed={str(k): val}), cfg, inputs)
        else:
            obs_f = observe(gp)
            check_restriction(res, name, {k: float(val)}, obs_f, obs0, cfg, inputs)
        # S2: fix; decode every restricted row (done by observe); free -> restored
        gp.free_des_var(dv)
        check_same(res, name, 'fix,decode*,free', observe(gp, decode_rows=obs0['rows']), dict(obs0, decodes=obs0['decodes']), cfg, inputs)
        # S2b: fix; free (no decode in between); fix again; free
        gp2, _, _ = _mk(name)
        dv2 = gp2.all_des_vars[k]
        gp2.fix_des_var(dv2, val)
        gp2.free_des_var(dv2)
        gp2.fix_des_var(dv2, val)
        obs_f2 = observe(gp2)
        check_same(res, name, 'fix,free,fix', obs_f2, obs_f, cfg, inputs)
        gp2.free_des_var(dv2)
        check_same(res, name, 'fix,free,fix,free', observe(gp2, decode_rows=obs0['rows']), obs0, cfg, inputs)
    # S3: re-fixing an already fixed variable to another value (no free in between) == fixing the new value on a fresh
    # processor; freeing afterwards restores the free problem
    if kinds[0]:
        fresh_fix = {}
        for v1, v2 in itertools.permutations(accepted_vals, 2):
            if v2 not in fresh_fix:
                ref, _, _ = _mk(name)
                ref.fix_des_var(ref.all_des_vars[k], v2)
                fresh_fix[v2] = observe(ref)
            gp3, _, _ = _mk(name)
            dv3 = gp3.all_des_vars[k]
            gp3.fix_des_var(dv3, v1)
            observe(gp3)
            gp3.fix_des_var(dv3, v2)
            check_same(res, name, 'fix v1,fix v2', observe(gp3), fresh_fix[v2], cfg, dict(values=[v1, v2]))
            gp3.free_des_var(dv3)
            check_same(res, name, 'fix v1,fix v2,free', observe(gp3, decode_rows=obs0['rows']), obs0, cfg, dict(values=[v1, v2]))
    # S4: a *rejected* fix on an already fixed variable (symbolic second value) leaves the restricted problem as it was
    if not is_conn:
        firsts = accepted_vals if len(accepted_vals) <= 2 else [accepted_vals[0], accepted_vals[-1]]
        for v1 in firsts:
            _refix_rejected(res, name, k, v1, kinds[0], dv0, cfg)
    res['sample'] = dict(harness=inst['label'], variable=str(dv0), paths=[dict(pc=str(p.pc), outcome=str(p.value)[:120]) for p in ex.paths][:8],
                         accepted_values=accepted_vals, free_rows=len(obs0['rows']))


def _run_pair(inst, res):
    name, a, b = inst['template'], inst['a'], inst['b']
    cfg = dict(template=name, a=a, b=b)
    ex, gp0, kinds, names = _symbolic_fix(res, name, [a, b])
    if not ex.complete:
        res['status'] = INCONCLUSIVE
        res['notes'].append(ex.status)
        return
    require_exhaustive(res, ex)
    obs0 = observe(gp0)
    conn = [_is_conn_var(gp0, a), _is_conn_var(gp0, b)]
    pairs = []
    for p in ex.paths:
        res['obligations'] += 1
        if p.kind == 'exc':
            _viol(res, 'fix', dict(kind='unexpected_exception', template=name, a=a, b=b), cfg, dict(path=str(p.pc)), repr(p.exc), 'accept or reject')
            continue
        status, i, exc, unchanged, out = p.value
        if status == 'accepted' and all(kinds):
            pairs.append((out[0][0], out[1][0]))
        if status == 'accepted' and any(conn):
            _viol(res, 'fix', dict(kind='accept_reject', template=name, k=a if conn[0] else b, conn=True), cfg, dict(values=[o[0] for o in out]), 'accepted', 'rejected')
        else:
            res['discharged'] += 1
        res['validated'] += 1
    if not all(kinds) or any(conn):
        res['sample'] = dict(harness=inst['label'], paths=len(ex.paths), note='continuous or connection variable in the pair: accept/reject only')
        return
    single_cache = {}
    for va, vb in pairs:
        inputs = dict(values=[va, vb])
        gp, _, _ = _mk(name)
        dva, dvb = gp.all_des_vars[a], gp.all_des_vars[b]
        gp.fix_des_var(dva, va)
        gp.fix_des_var(dvb, vb)
        obs_ab = observe(gp)
        check_restriction(res, name, {a: float(va), b: float(vb)}, obs_ab, obs0, cfg, inputs)
        for order in ((a, b), (b, a)):
            gp, _, _ = _mk(name)
            dv = {a: gp.all_des_vars[a], b: gp.all_des_vars[b]}
            val = {a: va, b: vb}
            gp.fix_des_var(dv[a], va)
            gp.fix_des_var(dv[b], vb)
            observe(gp)  # decodes in between
            first, second = order
            gp.free_des_var(dv[first])
            # now only `second` is fixed: same as a fresh processor with only that fix
            key = (second, val[second])
            if key not in single_cache:
                ref, _, _ = _mk(name)
                ref.fix_des_var(ref.all_des_vars[second], val[second])
                single_cache[key] = observe(ref)
            check_same(res, name, f'fix a,fix b,free {"a" if first == a else "b"}', observe(gp), single_cache[key], cfg, dict(inputs, freed_first=first))
            gp.free_des_var(dv[second])
            check_same(res, name, 'fix a,fix b,free,free', observe(gp, decode_rows=obs0['rows']), obs0, cfg, dict(inputs, freed_first=first))
    res['sample'] = dict(harness=inst['label'], paths=len(ex.paths), accepted_pairs=pairs[:10])


def replay(rec):
    a = rec['replay_args']
    cfg, inp = a['config'], a['inputs']
    res = new_result('replay')
    if 'k' in cfg:
        _run_single(dict(label='replay', kind='single', template=cfg['template'], k=cfg['k']), res)
    else:
        _run_pair(dict(label='replay', kind='pair', template=cfg['template'], a=cfg['a'], b=cfg['b']), res)
    hit = [v for v in res['violations'] if v['signature'].get('kind') == rec['signature']['kind']]
    for v in hit[:2]:
        print(v['signature'], v['input'], str(v['observed'])[:600], v['expected'])
    return len(hit) > 0
