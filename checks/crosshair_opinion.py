"""
Second opinion by CrossHair 0.0.110 (symbolic execution of Python with z3, per path, under a time budget) on three leaf
kernels that touch neither NumPy nor networkx (DESIGN.md 1.2). Thorough tier only. A disagreement with the main engine
makes the instance *inconclusive* - it is never a verdict by itself; "Not confirmed" without a counterexample is
reported as not covered.
"""
import os
import re
import sys
import tempfile
import subprocess

VERIF = os.path.dirname(os.path.dirname(os.path.abspath(__file__)))

KERNELS = {
    'correct_value': '''
from adsg_core.graph.adsg_nodes import DesignVariableNode


def clamp_discrete(v: int, n: int) -> int:
    """
    pre: 1 <= n <= 5
    post: __return__ == min(max(v, 0), n-1)
    """
    return DesignVariableNode('A', options=list(range(n))).correct_value(v)[0]


def clamp_continuous(v: float, lo: float, hi: float) -> float:
    """
    pre: lo < hi
    pre: v == v and lo == lo and hi == hi
    post: lo <= __return__ <= hi
    """
    return DesignVariableNode('A', bounds=(lo, hi)).correct_value(v)[0]
''',
    'connector': '''
from adsg_core.graph.adsg_nodes import ConnectorNode


def connector_valid(lo: int, hi: int, d: int) -> bool:
    """
    pre: 0 <= lo <= hi
    post: __return__ == (lo <= d <= hi)
    """
    return ConnectorNode('C', deg_min=lo, deg_max=hi).is_valid(d)


def connector_list_valid(a: int, b: int, d: int) -> bool:
    """
    post: __return__ == (d == a or d == b)
    """
    return ConnectorNode('C', deg_list=[a, b]).is_valid(d)
''',
    'iterspec': '''
from adsg_core.optimization.hierarchy.complete import ApplyIterSpec

SPEC = ApplyIterSpec(scenario=None, i_scenario=0, i_usi=0, i_comb=0, n_every=6, offsets=[(0, 1), (2, 3)], n_total=18)
MEMBERS = frozenset(iter(SPEC))


def contains(idx: int) -> bool:
    """
    post: __return__ == (idx in MEMBERS)
    """
    return idx in SPEC
''',
}


def run(kernel, per_condition_timeout=30):
    """returns list of dict(function, verdict, detail); verdict in confirmed / counterexample / not_confirmed / error"""
    repo = os.environ.get('VERIF_REPO', '/repo')
    d = tempfile.mkdtemp(prefix='xhair_')
    path = os.path.join(d, f'xh_{kernel}.py')
    with open(path, 'w') as fp:
        fp.write(KERNELS[kernel])
    exe = os.path.join(os.path.dirname(sys.executable), 'crosshair')
    env = dict(os.environ)
    env['PYTHONPATH'] = repo+os.pathsep+env.get('PYTHONPATH', '')
    try:
        r = subprocess.run([exe, 'check', '--report_all', '--per_condition_timeout', str(per_condition_timeout), path],
                           capture_output=True, text=True, timeout=per_condition_timeout*8+60, env=env)
        out = r.stdout+r.stderr
    except Exception as e:  # noqa
        return [dict(function=kernel, verdict='error', detail=f'{type(e).__name__}: {e}')]
    finally:
        import shutil
        shutil.rmtree(d, ignore_errors=True)
    res = []
    for line in out.splitlines():
        m = re.match(r'.*?:(\d+): (\w+): (.*)', line)
        if not m:
            continue
        level, msg = m.group(2), m.group(3)
        if 'Confirmed over all paths' in msg:
            verdict = 'confirmed'
        elif level == 'error':
            verdict = 'counterexample'
        elif 'Not confirmed' in msg or 'Unable to meet precondition' in msg:
            verdict = 'not_confirmed'
        else:
            verdict = 'other'
        res.append(dict(function=f'{kernel}:{m.group(1)}', verdict=verdict, detail=msg[:300]))
    if not res:
        res.append(dict(function=kernel, verdict='error', detail=out[-400:]))
    return res
