"""Regenerates /verif/MANIFEST.json from the table below (python3 tools/gen_manifest.py)."""
import json
import os

VERIF = os.path.dirname(os.path.dirname(os.path.abspath(__file__)))
PY = 'cd /verif && .venv/bin/python -m checks.run'

TECH = 'symbolic execution of the Python source with z3 (own path explorer symx); '

CLAIMED = {
    'C09': dict(
        level='model_checking',
        text='Bounded symbolic execution of the real validity kernels (_validate_matrix/_check_conns, Python source of the '
             'numba functions, reached through the real validate_matrix) on a matrix of unbounded non-negative symbolic '
             'integers; z3 refutes V(M)!=Spec(M) and Spec(M)!=(M in enumerated list) per (connector settings, existence '
             'pattern incl. absent connectors, explicit degree override lists with gaps, degree caps) for <=3x3 connectors and 1x4, 4x1, 2x4, 4x2; '
             'the enumerator and the counter run concretely and their output is the right-hand side of the second query; '
             'counts (three APIs) and query order (filtered or abandoned iteration first) are compared with the listing; concrete '
             'histories: existence patterns built with shared override dicts and exists masks, and two different settings '
             'enumerated one after the other in one cache.',
        note='Trusted: z3 (LIA), the independent specification in spec/conn.py, the symx engine (each path is cross-checked '
             'by one native jitted run). Bounds: <=3x3 connectors plus 1x4/4x1/2x4/4x2, alphabet of 18(+3) connector types, patterns from '
             'pools/conn.py; entries unbounded. Outside: negative entries, >3 connectors on both sides, >4 on one side. Thorough tier: the closing '
             'queries of a sample of instances also go through the z3 4.8.12 and cvc5 1.0.3 binaries.',
        technique=TECH+'solver-decided set equalities over unbounded integer matrices',
        ref='DESIGN.md section 4 (C09)'),
    'C07': dict(
        level='model_checking',
        text='PARTIAL. Connection variables on every code path of every registered encoder x imputer: a vector of n+e '
             'unbounded symbolic integers through the real manager.get_matrix (the C10 exploration); the activeness of a '
             'corrected vector must not depend on the raw vector it came from, must equal the activeness listed by '
             'get_all_design_vectors, inactive entries must be 0. AssignmentManagerBase._correct_is_active summarised on its '
             'own. Decode without materialising vs enumeration: for every real ApplyIterSpec of the complete encoder on the '
             'DSG templates, idx in Z symbolic: (idx in spec) <=> idx in set(iter(spec)). Canonical inactive value: '
             '_get_inactive_value = (lo+hi)/2 in [lo,hi] for symbolic bounds. AUXILIARY (concrete, labelled so in the evidence): on '
             'the DSG templates every listed design carries canonical inactive values and decodes to itself with and without '
             'materialising the instance - on the free problem and under single fixes, also on seeded random graphs. A variable seen '
             'inactive in a valid design must be flagged conditionally active.',
        note='Trusted: z3, symx, spec/conn.py. One known finding (D1: eager direct-hit activeness) is listed in '
             'known_findings.json and reported as KNOWN-FINDING. Not decided: that selection-choice and design-variable-node '
             'activeness agree between enumeration, create=True and create=False on whole graphs (no symbolic input).',
        technique=TECH+'symbolic connection vectors through every encoder; symbolic combination index through ApplyIterSpec',
        ref='DESIGN.md section 4 (C07)'),
    'C10': dict(
        level='model_checking',
        text='Bounded symbolic execution of the decode path of every registered connection encoder x imputer (eager, lazy, '
             'enumerating, pattern): a vector of n+e fresh unbounded symbolic integers (n declared variables <= 6, e in 0..2 '
             'surplus entries) through the real manager.get_matrix per (settings, existence pattern with >= 1 valid matrix). '
             'Totality over Z^(n+e) = exhaustiveness query of the path summary; per path: no exception, corrected vector in '
             'range, surplus entries inactive, matrix valid by the specification; across paths: equal corrected vectors give '
             'equal matrices, decode of the corrected vector is a fixed point (native), the corrected vectors are exactly '
             'get_all_design_vectors (including the -1 marking of inactive positions), onto-ness as a z3 query over all non-negative integer matrices, >= 2 used values per '
             'declared variable; get_conn_idx returns the edge list of that matrix. AUXILIARY (concrete): interference between problems '
             '(settings B after A in one cache, manager A while B is alive, encoder object of A serving B).',
        note='Three known findings (D3 lazy encoders, D4 partitioning pattern with one valid matrix, and D1 - the C07 finding - where it makes a listed vector carry an inactive marking that decoding does not report). Trusted: z3 (LIA), spec/conn.py (decided against the real enumerator under C09), symx (native replay per path). '
             'Bounds: <= 6 declared variables, <= 20000 paths per instance, settings <= 3x3 (plus one 2x4 and one 4x4 settings for the pattern encoders); the quick tier defers instances '
             'with more than ~2500 estimated paths to the thorough tier (listed in the evidence). Constraint-violation '
             'imputers: "valid matrix or the documented all(-1) marker", onto-ness not demanded.',
        technique=TECH+'symbolic design vectors of unbounded integers through every registered encoder/imputer; onto-ness '
                       'as a solver query over unbounded matrices',
        ref='DESIGN.md section 4 (C10)'),
    'C11': dict(
        level='model_checking',
        text='Per hand-written DSG template with connection choices (permanent and option-tied connectors, grouping '
             'connectors with conditional members, exclusion edges, two connection choices) and per selection scenario of '
             'the complete encoder: the connectors present and the exclusion edges are read from the instance graph and '
             'give an independent specification Spec(M); z3 refutes, over all non-negative integer matrices, Spec != '
             '(M in matrices the processor offers for the scenario\'s existence pattern), Spec != V_a (summary of the real '
             'validate_matrix with that pattern), Spec != (M in iter_conn_edges(instance)), Spec != V_b (summary of the real '
             'validator behind validate_conn_edges); scenario masked <=> Spec unsatisfiable. Grouping connector: real '
             'get_combined_deg / is_valid / to_assign_node with symbolic member degrees and symbolic queried degree: '
             'is_valid(d) <=> exists member degrees summing to d. Connector construction with symbolic deg_min/deg_max. Histories '
             '(concrete): instances derived before they are examined, one processor decoding all listed designs in order and in reverse.',
        note='Trusted: z3 (LIA + one quantifier alternation for the grouping sum), spec/conn.py, symx (native replay of '
             'every model, one native run per validator path). The parallel-connection cap is taken from the library per '
             'view (a library parameter; decided under C09). Graphs other than the templates are outside the claim; '
             '"applying a set yields exactly those edges" is an auxiliary concrete check.',
        technique=TECH+'validity kernel summarised per existence scenario, set equalities over unbounded integer matrices',
        ref='DESIGN.md section 4 (C11)'),
    'C13': dict(
        level='model_checking',
        text='PARTIAL. Bounded symbolic execution of the real get_valid_idx_combinations on rows of symbolic indices '
             '(>= -1, unbounded above, 2-4 choices): a row is kept iff the documented predicate holds (z3, per path); the '
             'sequential semantics (get_constraint_removed_options / get_constraint_pre_removed_options, and the same '
             'histories through the real DSG API on flat, hierarchical, mutually-exclusive, conditional, two-constraint, copied-graph and '
             'shared-option placements) with the order of '
             'taking choices and the option taken symbolic: all histories exhausted, soundness, completeness per order, dead '
             'ends only without completion; linked design variables through the real set_des_var_value (same index / same '
             'relative position, values unbounded). AUXILIARY (concrete): GraphProcessor with the complete and the fast encoder on '
             'the same placement templates - decodes and listed rows against the predicate set (found known findings K1, K2).',
        note='Trusted: z3, symx (one native run per path). Not decided: that whole graphs with constraints across hierarchy '
             'levels offer exactly these architectures under both selection-choice encoders (graph-structure quantifier); '
             'linked choices/variables with different option counts; more choices than options for permutation/non-replacing '
             '(documented requirement).',
        technique=TECH+'closed form decided for unbounded indices, sequential semantics by exhaustion of symbolic histories',
        ref='DESIGN.md section 4 (C13)'),
    'C15': dict(
        level='model_checking',
        text='Symbolic stage: the real GraphProcessor.fix_des_var with the value an unbounded symbolic integer (real for '
             'continuous variables) on hand-written DSG templates, for every design variable and for ordered pairs: the range '
             'test forks symbolically (one path for all values below / above), accepted values split one per path; z3 proves '
             'per path rejected <=> out of range or connection-choice variable (processor unchanged), accepted <=> in range. '
             'Native continuation of every accepting path on a second processor: restricted enumeration between the two '
             'filters of the free enumeration, decodes of restricted rows (create=True and False) are fixed points, count == '
             'rows, and after fix/decode/free, fix/free/fix/free and fix a/fix b/free/free (both orders) the processor is '
             'observationally equal to a fresh one (variables, enumeration with_fixed=True/False in both call orders, counts, '
             'statistics rows, decodes of every free row); re-fixing to another value without freeing equals a fresh fix; a symbolic '
             'second fix on a fixed variable is rejected iff out of range and leaves the restricted problem unchanged. Templates, '
             'seeded random graphs (10 quick / 60 thorough per run), and the fast encoder on nine templates and a few random graphs.',
        note='Trusted: z3, symx. The symbolic content is the accept/reject decision over all integers/reals; the restriction '
             'and restoration laws are decided by exhausting the accepted values of the small templates (the brief\'s own '
             'quantifier: all variables x all values x sequences up to length 4). Outside: other graphs, '
             'statistics other than the two total rows.',
        technique=TECH+'symbolic fixed value, native continuation per path against a fresh processor',
        ref='DESIGN.md section 4 (C15)'),
    'C16': dict(
        level='model_checking',
        text='Bounded symbolic execution of the real DesignVariableNode.__init__/correct_value and '
             'DSG.set_des_var_value/des_var_value: value in Z and R unbounded, bounds arbitrary reals lo<hi, option counts '
             '1..5, linked groups of 2-3; z3 proves per path that every stored value is the clamp / lies in its node\'s own '
             'domain and that linked continuous values keep the relative position. IEEE behaviour: the same real code is run '
             'on z3 FloatingPoint values (Float16/32/64); "stored value in bounds or NaN" is proved after abstracting '
             'arithmetic subterms (sound) or refuted with a model that is replayed natively with NumPy scalars of that width. '
             'Decode path: GraphProcessor.get_graph on twelve templates and seeded random graphs with the discrete design-variable entries symbolic in '
             '[-3, n+3]: existing nodes carry the clamped value which the corrected vector reports, absent nodes are inactive '
             'at the canonical value, linked followers carry the linked value, an instance returned earlier keeps its values when the '
             'architecture is decoded again, listed designs report the same entries; a copy of a graph is independent of later set_des_var_value calls.',
        note='Trusted: z3 (LRA/NRA, QF_FP), the symx engine (one native run per path). Preconditions: value not NaN, lo<hi, '
             'FP magnitudes <= 2^20. Not decided: "every existing node has a value and the vector reports it" on whole '
             'decoded graphs (get_graph casts with int()/float()).',
        technique=TECH+'Int/Real and FloatingPoint sorts, per-path solver obligations',
        ref='DESIGN.md section 4 (C16)'),
    'C17': dict(
        level='other',
        text='Symbolic execution (symx + z3) of the real metric typing code (GraphProcessor._get_metrics/_categorize_metrics, '
             'Objective/Constraint.from_metric_node) with direction a symbolic integer and reference a symbolic real over all '
             '40 placement x declaration configurations, and of DSGEvaluator.evaluate with an evaluator stub returning '
             'symbolic reals / NaN / nothing / a value for an absent node (64 behaviours x 2 architectures): role, sign (dir<=0 <=> -1), '
             'reference and value pass-through are solver obligations per path; pairs and triples of metric nodes, seeded random '
             'graphs (60 quick / 600 thorough), two evaluations with one evaluator, values pre-stored on the graph, two processors '
             'sharing the node objects. The symbolic content is thin (one sign test, pass-through); hence level "other".',
        note='Trusted: z3, symx. A metric that exists in every architecture only through choices may be read either way '
             '(necessary condition only). Placement in arbitrary graphs is a graph-structure quantifier and outside the claim.',
        technique=TECH+'sweep of placement/declaration configurations around symbolic direction, reference and values',
        ref='DESIGN.md section 4 (C17)'),
}

NOT_APPLICABLE = {
    'C01': 'inputs are a graph and a vector of a finite declared space that the decode pipeline concretises at first touch (int()/hash/int-array store); nothing remains for a solver to decide - enumeration, not a solver verdict',
    'C02': 'quantifies over graph topologies and choice orders; recursive networkx traversals with no scalar input; symbolic edge presence forks on every inspected edge (enumerates graphs)',
    'C03': 'same decode pipeline as C01; idempotence/injectivity are relations between concrete decodes, nothing stays symbolic past the first statement',
    'C04': 'no input besides the graph; scenario merging is NumPy table manipulation (unique/lexsort/fancy indexing) with nothing to make symbolic',
    'C05': 'histories over hidden caches, object identity, separate processes and hash seeds: heap- and process-level state with no symbolic variable',
    'C06': 'as C02: topologies x orders, exception-driven recursive pruning without numeric content',
    'C08': 'aliasing/mutation of node objects shared between derived graphs: pointer-rich heap and histories, no scalar input',
    'C12': 'encoder selection depends on wall-clock timeouts, thread interrupts, library versions and on-disk pickles; cache keys run through md5 and CPython hash(); cannot be encoded',
    'C14': 'graph + finite vector; greedy correction keys dictionaries/sets by the vector (hash => concretised at once); only a lemma about _iter_neighborhood would be reachable',
    'C18': 'equality is hash()==hash() over CPython tuple/str hashing plus pickling, process boundaries and string/XML export: C-level and process-level behaviour',
    'C19': 'thread scheduling, timed waits, asynchronous exception injected through ctypes, native blocking: concurrency and FFI',
    'C20': 'inputs are two graphs and dictionaries of node objects; resolution is set/dict look-ups on strings plus graph application; symbolic option indices would only drive list indexing',
    # under construction
}


def main():
    checks = []
    for pid, c in sorted(CLAIMED.items()):
        checks.append(dict(
            property_id=pid,
            quick_cmd=f'{PY} {pid} --tier quick',
            thorough_cmd=f'{PY} {pid} --tier thorough',
            evidence_file=f'/verif/evidence/{pid}.json',
            replay_cmd_template=f'{PY} {pid} --replay {{path}}',
            engine='symx',
            level_claimed=dict(category=c['level'], text=c['text'], design_ref=c['ref']),
            level_note=c['note'],
            technique=c['technique'],
        ))
    m = dict(
        version=1,
        setup_cmd='cd /verif && ./setup.sh',
        hooks=dict(
            guard='ADSG_CORE_VERIF',
            enable='no hooks in /repo: the checks import adsg_core from /repo\'s working tree and patch nothing on disk; numba '
                   'kernels are run from their .py_func inside the check process',
            baseline_off_cmd='cd /repo && /venv/bin/python -m pytest -ra -q -p no:cacheprovider --timeout=900 '
                             '--continue-on-collection-errors',
            source_commits=[],
            add_only=True),
        engines=[dict(name='symx', path='/verif/symx', serves_properties=sorted(CLAIMED),
                      kind_free_text='path-enumerating symbolic executor for Python (operator overloading, re-execution per '
                                     'decision prefix); z3 decides every branch and every closing query; Int, Real, Bool and '
                                     'FloatingPoint sorts')],
        checks=checks,
        not_applicable=[dict(property_id=k, reason=v) for k, v in sorted(NOT_APPLICABLE.items()) if k not in CLAIMED],
        notes='Solver-based checking of the real code; see DESIGN.md. Exit codes: 0 ok, 1 violation (VIOLATION line), 2 harness '
              'error. Genuine defects repaired by fix: commits in /repo are listed in known_findings.json ("fixed").',
    )
    with open(os.path.join(VERIF, 'MANIFEST.json'), 'w') as fp:
        json.dump(m, fp, indent=1)
    print('MANIFEST.json:', len(checks), 'checks,', len(m['not_applicable']), 'not applicable')


if __name__ == '__main__':
    main()
