"""
Small design space graphs written out by hand (no generator), shared by C07 / C11 / C15.
Each template is a function returning a fresh (dsg, info) pair; info names the nodes the oracles need.
"""


def _imp():
    from adsg_core import BasicDSG, NamedNode, ConnectorNode, ConnectorDegreeGroupingNode, DesignVariableNode, \
        MetricNode, ChoiceConstraintType
    return BasicDSG, NamedNode, ConnectorNode, ConnectorDegreeGroupingNode, DesignVariableNode, MetricNode, ChoiceConstraintType


def t_two_indep():
    B, N, *_ = _imp()
    g = B()
    r = N('R')
    a = [N('A0'), N('A1')]
    x = [N('X0'), N('X1'), N('X2')]
    c1 = g.add_selection_choice('C1', r, a)
    c2 = g.add_selection_choice('C2', r, x)
    return g.set_start_nodes({r}), dict(sel=[c1, c2])


def t_nested():
    B, N, *_ = _imp()
    g = B()
    r = N('R')
    a = [N('A0'), N('A1')]
    x = [N('X0'), N('X1')]
    c1 = g.add_selection_choice('C1', r, a)
    c2 = g.add_selection_choice('C2', a[1], x)
    return g.set_start_nodes({r}), dict(sel=[c1, c2])


def t_nested3():
    B, N, *_ = _imp()
    g = B()
    r = N('R')
    a = [N('A0'), N('A1'), N('A2')]
    x = [N('X0'), N('X1')]
    y = [N('Y0'), N('Y1'), N('Y2')]
    c1 = g.add_selection_choice('C1', r, a)
    c2 = g.add_selection_choice('C2', a[1], x)
    c3 = g.add_selection_choice('C3', x[0], y)
    g.add_edges([(a[2], x[1])])
    return g.set_start_nodes({r}), dict(sel=[c1, c2, c3])


def t_incompat():
    B, N, *_ = _imp()
    g = B()
    r = N('R')
    a = [N('A0'), N('A1')]
    x = [N('X0'), N('X1')]
    c1 = g.add_selection_choice('C1', r, a)
    c2 = g.add_selection_choice('C2', r, x)
    g.add_incompatibility_constraint([a[0], x[0]])
    return g.set_start_nodes({r}), dict(sel=[c1, c2])


def t_incompat3():
    """two permanent choices under separate nodes; option A1 excludes option X2 of the *later* choice (which keeps two
    options and so stays a variable): vectors (1, 2) have to be corrected"""
    B, N, *_ = _imp()
    g = B()
    r, p, q = N('R'), N('P'), N('Q')
    a = [N('A0'), N('A1')]
    x = [N('X0'), N('X1'), N('X2')]
    g.add_edges([(r, p), (r, q)])
    c1 = g.add_selection_choice('C1', p, a)
    c2 = g.add_selection_choice('C2', q, x)
    g.add_incompatibility_constraint([a[1], x[2]])
    return g.set_start_nodes({r}), dict(sel=[c1, c2])


def t_shared_option():
    """option O2 of the permanent choice C1 is also an option of the nested choice C2 (under O1) and incompatible with
    O1: vectors (C1=O1, C2=O2) must be corrected, and how depends on which of the two is fixed (seeded graph rnd5001)"""
    B, N, *_ = _imp()
    g = B()
    r, e4 = N('R'), N('E4')
    o1, o2, o3, o5, o6 = N('O1'), N('O2'), N('O3'), N('O5'), N('O6')
    c1 = g.add_selection_choice('C1', r, [o1, o2, o3])
    g.add_edges([(o1, e4)])
    c2 = g.add_selection_choice('C2', e4, [o2, o5, o6])
    g.add_incompatibility_constraint([o1, o2])
    return g.set_start_nodes({r}), dict(sel=[c1, c2])


def t_forced():
    B, N, *_ = _imp()
    g = B()
    r = N('R')
    a = [N('A0')]
    x = [N('X0'), N('X1')]
    c1 = g.add_selection_choice('C1', r, a)
    c2 = g.add_selection_choice('C2', a[0], x)
    return g.set_start_nodes({r}), dict(sel=[c1, c2])


def t_dv():
    B, N, CN, G, DV, *_ = _imp()
    g = B()
    r = N('R')
    a = [N('A0'), N('A1')]
    d_perm = DV('Dp', options=[10, 20, 30])
    d_cond = DV('Dc', options=['u', 'v'])
    c_cond = DV('Cc', bounds=(0., 1.))
    c_perm = DV('Cp', bounds=(-1., 1.))
    c1 = g.add_selection_choice('C1', r, a)
    g.add_edges([(r, d_perm), (r, c_perm), (a[1], d_cond), (a[1], c_cond)])
    return g.set_start_nodes({r}), dict(sel=[c1], dv=[d_perm, d_cond, c_cond, c_perm])


def t_dv_single():
    """design variables with a single option (permanent and conditional) next to ordinary ones"""
    B, N, CN, G, DV, *_ = _imp()
    g = B()
    r = N('R')
    a = [N('A0'), N('A1')]
    d_one = DV('D1', options=['only'])
    d_one_c = DV('D1c', options=['only'])
    d_two = DV('D2', options=[1, 2])
    c = DV('Cx', bounds=(-3., -1.))
    c1 = g.add_selection_choice('C1', r, a)
    g.add_edges([(r, d_one), (a[0], d_one_c), (a[1], d_two), (a[0], c)])
    return g.set_start_nodes({r}), dict(sel=[c1], dv=[d_one, d_one_c, d_two, c])


def t_dv_or_existence():
    """a design variable under a node that is reachable from options of two different choices (OR-existence), next to a
    design variable that exists under one option only"""
    B, N, CN, G, DV, *_ = _imp()
    g = B()
    r = N('R')
    a = [N('N11'), N('N12')]
    b = [N('N21'), N('N22')]
    shared = N('SH')
    dv_a = DV('DA', options=[1, 2])
    dv_b = DV('DB', options=[1, 2, 3])
    c1 = g.add_selection_choice('C1', r, a)
    c2 = g.add_selection_choice('C2', r, b)
    g.add_edges([(a[0], dv_a), (a[1], shared), (b[1], shared), (shared, dv_b)])
    return g.set_start_nodes({r}), dict(sel=[c1, c2], dv=[dv_a, dv_b])


def t_dv_or_direct():
    """a design-variable node derived *directly* from options of two different choices (the node itself has two
    predecessors), next to one that exists under one option only"""
    B, N, CN, G, DV, *_ = _imp()
    g = B()
    r, s1, s2 = N('R'), N('S1'), N('S2')
    b1, f1, b2, f2 = N('B1'), N('F1'), N('B2'), N('F2')
    cap = DV('CAP', bounds=(-4., 0.))
    own = DV('OWN', options=['S', 'M', 'L'])
    g.add_edges([(r, s1), (r, s2), (b1, cap), (b2, cap), (f2, own)])
    c1 = g.add_selection_choice('C1', s1, [b1, f1])
    c2 = g.add_selection_choice('C2', s2, [b2, f2])
    return g.set_start_nodes({r}), dict(sel=[c1, c2], dv=[cap, own])


def t_dv_same_name():
    """design-variable nodes of different elements that carry the same name and the same domain (also: the name of an
    indexed node coincides with the plain name of another)"""
    B, N, CN, G, DV, *_ = _imp()
    g = B()
    r, p, q = N('R'), N('P'), N('Q')
    a = [N('A0'), N('A1')]
    l1, l2 = DV('L', bounds=(0., 1.)), DV('L', bounds=(0., 1.))
    n1, n2 = DV('n', options=[0, 1, 2], idx=1), DV('n_1', options=[0, 1, 2])
    c1 = g.add_selection_choice('C1', r, a)
    g.add_edges([(r, p), (r, q), (p, l1), (q, l2), (p, n1), (a[1], n2)])
    return g.set_start_nodes({r}), dict(sel=[c1], dv=[l1, l2, n1, n2])


def t_dv_linked3_cond():
    """three linked discrete design-variable nodes, the last one under one option of a choice only"""
    B, N, CN, G, DV, M, CCT = _imp()
    g = B()
    r = N('R')
    a = [N('A0'), N('A1')]
    d1, d2, d3 = DV('D1', options=[1, 2, 3]), DV('D2', options=[4, 5, 6]), DV('D3', options=[7, 8])
    c1 = g.add_selection_choice('C1', r, a)
    g.add_edges([(r, d1), (r, d2), (a[0], d3)])
    g = g.set_start_nodes({r})
    g = g.constrain_choices(CCT.LINKED, [d1, d2, d3])
    return g, dict(sel=[c1], dv=[d1, d2, d3], linked=[[d1, d2, d3]])


def t_dv_linked():
    B, N, CN, G, DV, M, CCT = _imp()
    g = B()
    r = N('R')
    a = [N('A0'), N('A1')]
    d1 = DV('D1', options=[1, 2, 3])
    d2 = DV('D2', options=[4, 5, 6])
    c1 = g.add_selection_choice('C1', r, a)
    g.add_edges([(r, d1), (a[0], d2)])
    g = g.set_start_nodes({r})
    g = g.constrain_choices(CCT.LINKED, [d1, d2])
    return g, dict(sel=[c1], dv=[d1, d2], linked=[[d1, d2]])


def t_sel_linked():
    B, N, CN, G, DV, M, CCT = _imp()
    g = B()
    r = N('R')
    a = [N('A0'), N('A1'), N('A2')]
    x = [N('X0'), N('X1'), N('X2')]
    y = [N('Y0'), N('Y1')]
    c1 = g.add_selection_choice('C1', r, a)
    c2 = g.add_selection_choice('C2', r, x)
    c3 = g.add_selection_choice('C3', a[0], y)
    g = g.set_start_nodes({r})
    g = g.constrain_choices(CCT.UNORDERED, [c1, c2])
    return g, dict(sel=[c1, c2, c3])


def t_sel_linked_nested():
    """two LINKED choices under one option of a first choice (the second becomes forced, at a non-zero index too), and a
    further choice under one option of the forced one (inactive in most combinations of the same scenario)"""
    B, N, CN, G, DV, M, CCT = _imp()
    g = B()
    n = {k: N(k) for k in ['root', 'o0', 'o1', 'o2', 'o3', 't0', 't1', 't2', 'a0', 'a1', 'a2', 'b0', 'b1', 'b2', 'd0', 'd1']}
    g.add_edges([(n['root'], n['o0']), (n['t1'], n['o1']), (n['t1'], n['o2']), (n['b0'], n['o3'])])
    c0 = g.add_selection_choice('C0', n['o0'], [n['t0'], n['t1'], n['t2']])
    c1 = g.add_selection_choice('C1', n['o1'], [n['a0'], n['a1'], n['a2']])
    c2 = g.add_selection_choice('C2', n['o2'], [n['b0'], n['b1'], n['b2']])
    c3 = g.add_selection_choice('C3', n['o3'], [n['d0'], n['d1']])
    g = g.set_start_nodes({n['root']})
    g = g.constrain_choices(CCT.LINKED, [c1, c2])
    return g, dict(sel=[c0, c1, c2, c3])


def t_sel_linked_incompat():
    """C1 and C2 (under option q of C1) LINKED, C3 under option p of C1, and an incompatibility between an option of C2
    and one of C3: one merged scenario whose choices are not in index order, with a forced choice"""
    B, N, CN, G, DV, M, CCT = _imp()
    g = B()
    n = {k: N(k) for k in ['root', 'o0', 'o1', 'o2', 'o3', 'a', 'b', 'p', 'q', 'r', 'x', 'y', 'z', 'u', 'v', 'w']}
    g.add_edges([(n['root'], n['o0']), (n['a'], n['o1']), (n['q'], n['o2']), (n['p'], n['o3'])])
    g.add_incompatibility_constraint([n['x'], n['w']])
    c0 = g.add_selection_choice('C0', n['o0'], [n['a'], n['b']])
    c1 = g.add_selection_choice('C1', n['o1'], [n['p'], n['q'], n['r']])
    c2 = g.add_selection_choice('C2', n['o2'], [n['x'], n['y'], n['z']])
    c3 = g.add_selection_choice('C3', n['o3'], [n['u'], n['v'], n['w']])
    g = g.set_start_nodes({n['root']})
    g = g.constrain_choices(CCT.LINKED, [c1, c2])
    return g, dict(sel=[c0, c1, c2, c3])


def t_conn_two_exclusive():
    """two connection choices of which exactly one exists, depending on a selection choice"""
    B, N, CN, *_ = _imp()
    g = B()
    r, o1 = N('R'), N('O1')
    a = [N('A'), N('B')]
    s1, s2 = CN('S1', deg_list=[1]), CN('S2', deg_list=[1])
    t1 = [CN(f'T1{c}', deg_list=[0, 1]) for c in 'ab']
    t2 = [CN(f'T2{c}', deg_list=[0, 1]) for c in 'ab']
    g.add_edges([(r, o1), (a[0], s1), (a[1], s2)]+[(r, t) for t in t1+t2])
    c1 = g.add_selection_choice('C1', o1, a)
    k1 = g.add_connection_choice('K1', [s1], t1)
    k2 = g.add_connection_choice('K2', [s2], t2)
    return g.set_start_nodes({r}), dict(sel=[c1], conn=[k1, k2], src=[s1, s2], tgt=t1+t2)


def t_sel_forced_linked():
    """two linked selection choices (the second one is forced: it gets no design variable) followed by independent ones;
    the index of a design variable then differs from the index of its selection choice"""
    B, N, CN, G, DV, M, CCT = _imp()
    g = B()
    r = N('R')
    a = [N('A0'), N('A1')]
    x = [N('X0'), N('X1')]
    y = [N('Y0'), N('Y1'), N('Y2')]
    z = [N('Z0'), N('Z1')]
    c1 = g.add_selection_choice('C1', r, a)
    c2 = g.add_selection_choice('C2', r, x)
    c3 = g.add_selection_choice('C3', r, y)
    c4 = g.add_selection_choice('C4', y[1], z)
    g = g.set_start_nodes({r})
    g = g.constrain_choices(CCT.LINKED, [c1, c2])
    return g, dict(sel=[c1, c2, c3, c4])


def t_conn_simple():
    B, N, CN, *_ = _imp()
    g = B()
    r = N('R')
    s = [CN('S0', deg_spec='*', repeated_allowed=False), CN('S1', deg_spec='?')]
    t = [CN('T0', deg_spec='*'), CN('T1', deg_list=[1])]
    g.add_edges([(r, n_) for n_ in s+t])
    cc = g.add_connection_choice('K', s, t)
    return g.set_start_nodes({r}), dict(conn=[cc], src=s, tgt=t)


def t_conn_cond():
    """connectors tied to selection options (as in the theory page): sources under options of C1, targets of C2"""
    B, N, CN, *_ = _imp()
    g = B()
    r1, r2 = N('R1'), N('R2')
    a = [N('A0'), N('A1')]
    x = [N('X0'), N('X1')]
    s = [CN('S0', deg_spec='+'), CN('S1', deg_spec='+')]
    t = [CN('T0', deg_spec='+'), CN('T1', deg_spec='+')]
    g.add_edges([(a[1], a[0]), (x[1], x[0]), (a[0], s[0]), (a[1], s[1]), (x[0], t[0]), (x[1], t[1])])
    c1 = g.add_selection_choice('C1', r1, a)
    c2 = g.add_selection_choice('C2', r2, x)
    cc = g.add_connection_choice('K', s, t)
    return g.set_start_nodes({r1, r2}), dict(sel=[c1, c2], conn=[cc], src=s, tgt=t)


def t_conn_opt_src():
    """an optional source; when it is absent the required target can only be served by the permanent source"""
    B, N, CN, *_ = _imp()
    g = B()
    r = N('R')
    a = [N('A0'), N('A1')]
    s = [CN('S0', deg_spec='?'), CN('S1', deg_spec='*', repeated_allowed=True)]
    t = [CN('T0', deg_list=[1, 2], repeated_allowed=True), CN('T1', deg_spec='?')]
    c1 = g.add_selection_choice('C1', r, a)
    g.add_edges([(r, s[0]), (a[1], s[1]), (r, t[0]), (r, t[1])])
    cc = g.add_connection_choice('K', s, t)
    return g.set_start_nodes({r}), dict(sel=[c1], conn=[cc], src=s, tgt=t)


def t_conn_infeasible_scenario():
    """target needs exactly 2 connections without repetition: only possible when both sources exist"""
    B, N, CN, *_ = _imp()
    g = B()
    r = N('R')
    a = [N('A0'), N('A1')]
    s = [CN('S0', deg_spec='?'), CN('S1', deg_spec='?')]
    t = [CN('T0', deg_list=[2])]
    c1 = g.add_selection_choice('C1', r, a)
    g.add_edges([(r, s[0]), (a[1], s[1]), (r, t[0])])
    cc = g.add_connection_choice('K', s, t)
    return g.set_start_nodes({r}), dict(sel=[c1], conn=[cc], src=s, tgt=t)


def t_conn_infeasible_dv():
    """the *first* selection option leaves the connection choice without a valid connection set (that combination is
    removed from the valid designs, later ones are kept), next to permanent and conditional design-variable nodes"""
    B, N, CN, G, DV, *_ = _imp()
    g = B()
    r = N('R')
    a = [N('A0'), N('A1')]
    s = [CN('S0', deg_spec='?'), CN('S1', deg_spec='?')]
    t = [CN('T0', deg_list=[2])]
    dp, cp, dc = DV('DP', options=[1, 2, 3]), DV('CP', bounds=(1., 3.)), DV('DC', options=[1, 2])
    c1 = g.add_selection_choice('C1', r, a)
    g.add_edges([(r, s[0]), (a[1], s[1]), (r, t[0]), (r, dp), (r, cp), (a[1], dc)])
    cc = g.add_connection_choice('K', s, t)
    return g.set_start_nodes({r}), dict(sel=[c1], conn=[cc], src=s, tgt=t, dv=[dp, cp, dc])


def t_conn_parallel_absent():
    """a conditional source that may take up to 3 connections next to a permanent open-ended repeatable source and
    target: when it is absent, its degree list must not raise the number of parallel connections between the others"""
    B, N, CN, *_ = _imp()
    g = B()
    r = N('R')
    a = [N('A0'), N('A1')]
    s = [CN('S0', deg_spec='*', repeated_allowed=True), CN('S1', deg_list=[0, 3], repeated_allowed=True)]
    t = [CN('T0', deg_spec='*', repeated_allowed=True)]
    c1 = g.add_selection_choice('C1', r, a)
    g.add_edges([(r, s[0]), (a[1], s[1]), (r, t[0])])
    cc = g.add_connection_choice('K', s, t)
    return g.set_start_nodes({r}), dict(sel=[c1], conn=[cc], src=s, tgt=t)


def t_conn_parallel_required():
    """a target that takes exactly two connections and allows parallel ones: with the second source absent the only
    valid set is two parallel connections from the permanent source"""
    B, N, CN, *_ = _imp()
    g = B()
    r = N('R')
    a = [N('A0'), N('A1')]
    s = [CN('S0', deg_list=[0, 1, 2], repeated_allowed=True), CN('S1', deg_spec='?')]
    t = [CN('T0', deg_list=[2], repeated_allowed=True)]
    c1 = g.add_selection_choice('C1', r, a)
    g.add_edges([(r, s[0]), (a[1], s[1]), (r, t[0])])
    cc = g.add_connection_choice('K', s, t)
    return g.set_start_nodes({r}), dict(sel=[c1], conn=[cc], src=s, tgt=t)


def t_conn_group():
    """grouping connector over a permanent member [1] and an option-tied member 1..* (round-0 validator finding)"""
    B, N, CN, G, *_ = _imp()
    g = B()
    r = N('R')
    a = [N('A0'), N('A1')]
    m = [CN('M0', deg_list=[1]), CN('M1', deg_spec='+')]
    grp = G('GRP')
    t = [CN('T0', deg_spec='*', repeated_allowed=True), CN('T1', deg_spec='*', repeated_allowed=True)]
    c1 = g.add_selection_choice('C1', r, a)
    g.add_edges([(r, m[0]), (a[1], m[1]), (r, t[0]), (r, t[1])])
    cc = g.add_connection_choice('K', [(grp, m)], t)
    return g.set_start_nodes({r}), dict(sel=[c1], conn=[cc], src=[grp], tgt=t, members={grp: m})


def t_conn_group_open():
    """grouping connector over a permanent open-ended member and an option-tied open-ended member (both min 1)"""
    B, N, CN, G, *_ = _imp()
    g = B()
    r = N('R')
    a = [N('A0'), N('A1')]
    m = [CN('M0', deg_spec='+', repeated_allowed=True), CN('M1', deg_spec='+', repeated_allowed=True)]
    grp = G('GRP')
    t = [CN('T0', deg_list=[1, 2, 3], repeated_allowed=True)]
    c1 = g.add_selection_choice('C1', r, a)
    g.add_edges([(r, m[0]), (a[1], m[1]), (r, t[0])])
    cc = g.add_connection_choice('K', [(grp, m)], t)
    return g.set_start_nodes({r}), dict(sel=[c1], conn=[cc], src=[grp], tgt=t, members={grp: m})


def t_conn_group_open2():
    """as above with two targets that accept exactly one connection: without the second member the scenario needs the
    group to accept a single... two connections"""
    B, N, CN, G, *_ = _imp()
    g = B()
    r = N('R')
    a = [N('A0'), N('A1')]
    m = [CN('M0', deg_spec='+'), CN('M1', deg_spec='2..*')]
    grp = G('GRP')
    t = [CN('T0', deg_spec='?'), CN('T1', deg_spec='?'), CN('T2', deg_spec='?')]
    c1 = g.add_selection_choice('C1', r, a)
    g.add_edges([(r, m[0]), (a[1], m[1]), (r, t[0]), (r, t[1]), (r, t[2])])
    cc = g.add_connection_choice('K', [(grp, m)], t)
    return g.set_start_nodes({r}), dict(sel=[c1], conn=[cc], src=[grp], tgt=t, members={grp: m})


def t_conn_group_finite():
    B, N, CN, G, *_ = _imp()
    g = B()
    r = N('R')
    a = [N('A0'), N('A1'), N('A2')]
    m = [CN('M0', deg_list=[0, 1]), CN('M1', deg_list=[1, 2]), CN('M2', deg_spec='?')]
    grp = G('GRP')
    t = [CN('T0', deg_spec='*', repeated_allowed=True), CN('T1', deg_spec='?')]
    c1 = g.add_selection_choice('C1', r, a)
    g.add_edges([(r, m[0]), (a[1], m[1]), (a[2], m[2]), (a[2], m[1]), (r, t[0]), (r, t[1])])
    cc = g.add_connection_choice('K', [(grp, m)], t)
    return g.set_start_nodes({r}), dict(sel=[c1], conn=[cc], src=[grp], tgt=t, members={grp: m})


def t_conn_excl():
    B, N, CN, *_ = _imp()
    g = B()
    r = N('R')
    a = [N('A0'), N('A1')]
    s = [CN('S0', deg_spec='*'), CN('S1', deg_spec='*')]
    t = [CN('T0', deg_spec='*'), CN('T1', deg_spec='?')]
    c1 = g.add_selection_choice('C1', r, a)
    g.add_edges([(r, s[0]), (a[1], s[1]), (r, t[0]), (r, t[1])])
    cc = g.add_connection_choice('K', s, t, exclude=[(s[0], t[0]), (s[1], t[1])])
    return g.set_start_nodes({r}), dict(sel=[c1], conn=[cc], src=s, tgt=t)


def t_conn_excl_shift():
    """an exclusion edge whose source comes after a conditional source: in the scenario without S0 the indices shift"""
    B, N, CN, *_ = _imp()
    g = B()
    r = N('R')
    a = [N('A0'), N('A1')]
    s = [CN('S0', deg_spec='*'), CN('S1', deg_spec='*'), CN('S2', deg_spec='?')]
    t = [CN('T0', deg_spec='*'), CN('T1', deg_spec='?')]
    c1 = g.add_selection_choice('C1', r, a)
    g.add_edges([(a[1], s[0]), (r, s[1]), (r, s[2]), (r, t[0]), (r, t[1])])
    cc = g.add_connection_choice('K', s, t, exclude=[(s[1], t[0])])
    return g.set_start_nodes({r}), dict(sel=[c1], conn=[cc], src=s, tgt=t)


def t_conn_two_infeasible():
    """two connection choices; the FIRST one has a scenario without any valid connection set (a source needs exactly two
    non-parallel connections, one of its two targets is tied to a selection option)"""
    B, N, CN, *_ = _imp()
    g = B()
    r = N('R')
    a = [N('A0'), N('A1')]
    s = [CN('S0', deg_list=[2])]
    t = [CN('T0', deg_spec='?'), CN('T1', deg_spec='?')]
    u = [CN('U0', deg_spec='?')]
    v = [CN('V0', deg_spec='?'), CN('V1', deg_spec='?')]
    c1 = g.add_selection_choice('C1', r, a)
    g.add_edges([(r, s[0]), (r, t[0]), (a[1], t[1]), (r, u[0]), (r, v[0]), (r, v[1])])
    k1 = g.add_connection_choice('K1', s, t)
    k2 = g.add_connection_choice('K2', u, v)
    return g.set_start_nodes({r}), dict(sel=[c1], conn=[k1, k2], src=s, tgt=t)


def t_conn_group_no_counterpart():
    """grouping connector over an optional and a required member; its only counterpart is tied to a selection option"""
    B, N, CN, G, *_ = _imp()
    g = B()
    r = N('R')
    a = [N('A0'), N('A1')]
    m = [CN('M0', deg_spec='?'), CN('M1', deg_list=[1])]
    grp = G('GRP')
    t = [CN('T0', deg_spec='*', repeated_allowed=True)]
    c1 = g.add_selection_choice('C1', r, a)
    g.add_edges([(r, m[0]), (r, m[1]), (a[1], t[0])])
    cc = g.add_connection_choice('K', [(grp, m)], t)
    return g.set_start_nodes({r}), dict(sel=[c1], conn=[cc], src=[grp], tgt=t, members={grp: m})


def t_conn_cond_choice():
    """the connection choice itself only exists under a selection option (all its connectors hang under option A1)"""
    B, N, CN, *_ = _imp()
    g = B()
    r = N('R')
    a = [N('A0'), N('A1')]
    b = [N('B0'), N('B1')]
    s = [CN('S0', deg_spec='?'), CN('S1', deg_spec='*')]
    t = [CN('T0', deg_list=[1]), CN('T1', deg_spec='?')]
    c1 = g.add_selection_choice('C1', r, a)
    c2 = g.add_selection_choice('C2', a[1], b)
    g.add_edges([(a[1], s[0]), (b[1], s[1]), (a[1], t[0]), (a[1], t[1])])
    cc = g.add_connection_choice('K', s, t)
    return g.set_start_nodes({r}), dict(sel=[c1, c2], conn=[cc], src=s, tgt=t)


def t_conn_cond_choice_dv():
    """a connection choice that only exists under option A1, next to design-variable nodes that also exist where the
    connection choice is absent (A0)"""
    B, N, CN, G, DV, *_ = _imp()
    g = B()
    r = N('R')
    a = [N('A0'), N('A1')]
    s = [CN('S0', deg_spec='?')]
    t = [CN('T0', deg_spec='?'), CN('T1', deg_spec='?')]
    d, c = DV('D', options=[1, 2, 3]), DV('X', bounds=(0., 2.))
    c1 = g.add_selection_choice('C1', r, a)
    g.add_edges([(a[1], s[0]), (a[1], t[0]), (a[1], t[1]), (r, d), (a[0], c)])
    cc = g.add_connection_choice('K', s, t)
    return g.set_start_nodes({r}), dict(sel=[c1], conn=[cc], src=s, tgt=t, dv=[d, c])


def t_dv_linked_interleaved():
    """two LINKED groups whose members interleave in name order: [DA, DC] and [DB, DD]"""
    B, N, CN, G, DV, M, CCT = _imp()
    g = B()
    r = N('R')
    a = [N('A0'), N('A1')]
    da, dc = DV('DA', options=[1, 2, 3]), DV('DC', options=[4, 5, 6])
    db, dd = DV('DB', bounds=(0., 1.)), DV('DD', bounds=(2., 4.))
    c1 = g.add_selection_choice('C1', r, a)
    g.add_edges([(r, da), (r, db), (r, dc), (a[0], dd)])
    g = g.set_start_nodes({r})
    g = g.constrain_choices(CCT.LINKED, [da, dc])
    g = g.constrain_choices(CCT.LINKED, [db, dd])
    return g, dict(sel=[c1], dv=[da, db, dc, dd], linked=[[da, dc], [db, dd]])


def t_dv_linked_late():
    """as dv_linked, but the graph's design-variable nodes are read once before the LINKED constraint is declared"""
    B, N, CN, G, DV, M, CCT = _imp()
    g = B()
    r = N('R')
    a = [N('A0'), N('A1')]
    d1 = DV('D1', options=[1, 2, 3])
    d2 = DV('D2', options=[4, 5, 6])
    c1 = g.add_selection_choice('C1', r, a)
    g.add_edges([(r, d1), (a[0], d2)])
    g = g.set_start_nodes({r})
    _ = g.des_var_nodes
    _ = g.choice_nodes
    g = g.constrain_choices(CCT.LINKED, [d1, d2])
    return g, dict(sel=[c1], dv=[d1, d2], linked=[[d1, d2]])


def t_conn_rows_eq_combs():
    """three selection options: A offers two optional targets (two connection designs) and a continuous design variable,
    B offers no target (infeasible, dropped), C offers one target: the number of listed rows equals the number of
    selection combinations although they do not correspond"""
    B, N, CN, G, DV, *_ = _imp()
    g = B()
    r = N('R')
    a = [N('A'), N('B'), N('C')]
    s = [CN('S0', deg_list=[1])]
    t = [CN('TA1', deg_spec='?'), CN('TA2', deg_spec='?'), CN('TC', deg_spec='?')]
    dva = DV('DVA', bounds=(2., 4.))
    c1 = g.add_selection_choice('C1', r, a)
    g.add_edges([(r, s[0]), (a[0], t[0]), (a[0], t[1]), (a[2], t[2]), (a[0], dva)])
    cc = g.add_connection_choice('K', s, t)
    return g.set_start_nodes({r}), dict(sel=[c1], conn=[cc], src=s, tgt=t, dv=[dva])


def t_conn_group_tgt():
    """grouping connector on the target side with a conditional member; a source tied to another selection choice"""
    B, N, CN, G, *_ = _imp()
    g = B()
    r = N('R')
    a = [N('A0'), N('A1')]
    b = [N('B0'), N('B1')]
    s = [CN('S0', deg_spec='*', repeated_allowed=True), CN('S1', deg_spec='?')]
    m = [CN('M0', deg_list=[0, 1]), CN('M1', deg_list=[1, 2], repeated_allowed=True)]
    grp = G('GT')
    c1 = g.add_selection_choice('C1', r, a)
    c2 = g.add_selection_choice('C2', r, b)
    g.add_edges([(r, s[0]), (b[1], s[1]), (r, m[0]), (a[1], m[1])])
    cc = g.add_connection_choice('K', s, [(grp, m)])
    return g.set_start_nodes({r}), dict(sel=[c1, c2], conn=[cc], src=s, tgt=[grp], members={grp: m})


def t_conn_group_excl():
    """a target-side grouping connector with a conditional member, and a connection-exclusion edge from a source to the
    grouping connector itself (the excluding source must not be taken for a member of the group)"""
    B, N, CN, G, *_ = _imp()
    g = B()
    r = N('R')
    a = [N('A0'), N('A1')]
    s = [CN('S0', deg_spec='*', repeated_allowed=True), CN('S1', deg_spec='?')]
    m = [CN('M0', deg_list=[0, 1]), CN('M1', deg_list=[1, 2], repeated_allowed=True)]
    grp = G('GT')
    t1 = CN('T1', deg_spec='*')
    c1 = g.add_selection_choice('C1', r, a)
    g.add_edges([(r, s[0]), (r, s[1]), (r, m[0]), (a[1], m[1]), (r, t1)])
    cc = g.add_connection_choice('K', s, [(grp, m), t1], exclude=[(s[1], grp)])
    return g.set_start_nodes({r}), dict(sel=[c1], conn=[cc], src=s, tgt=[grp, t1], members={grp: m})


def t_conn_group3():
    """three members: one permanent, two conditional on options of two different choices, mixed repeatability"""
    B, N, CN, G, *_ = _imp()
    g = B()
    r = N('R')
    a = [N('A0'), N('A1')]
    b = [N('B0'), N('B1')]
    m = [CN('M0', deg_list=[0, 1]), CN('M1', deg_list=[0, 2], repeated_allowed=True), CN('M2', deg_spec='?')]
    grp = G('GRP')
    t = [CN('T0', deg_spec='*', repeated_allowed=True), CN('T1', deg_spec='?')]
    c1 = g.add_selection_choice('C1', r, a)
    c2 = g.add_selection_choice('C2', r, b)
    g.add_edges([(r, m[0]), (a[1], m[1]), (b[1], m[2]), (r, t[0]), (r, t[1])])
    cc = g.add_connection_choice('K', [(grp, m)], t)
    return g.set_start_nodes({r}), dict(sel=[c1, c2], conn=[cc], src=[grp], tgt=t, members={grp: m})


def t_conn_chain():
    """a connector that exists through a chain of two selection choices; a third choice that does not touch connectors
    (two scenarios share every existence pattern)"""
    B, N, CN, *_ = _imp()
    g = B()
    r = N('R')
    a = [N('A0'), N('A1')]
    b = [N('B0'), N('B1')]
    z = [N('Z0'), N('Z1')]
    s = [CN('S0', deg_spec='+'), CN('S1', deg_spec='?')]
    t = [CN('T0', deg_spec='*'), CN('T1', deg_list=[0, 2])]
    c1 = g.add_selection_choice('C1', r, a)
    c2 = g.add_selection_choice('C2', a[1], b)
    c3 = g.add_selection_choice('C3', r, z)
    g.add_edges([(r, s[0]), (b[1], s[1]), (r, t[0]), (r, t[1])])
    cc = g.add_connection_choice('K', s, t)
    return g.set_start_nodes({r}), dict(sel=[c1, c2, c3], conn=[cc], src=s, tgt=t)


def t_conn_excl_cond2():
    """an exclusion edge between a source tied to one selection choice and a target tied to another one"""
    B, N, CN, *_ = _imp()
    g = B()
    r = N('R')
    a = [N('A0'), N('A1')]
    b = [N('B0'), N('B1')]
    s = [CN('S0', deg_spec='*'), CN('S1', deg_spec='?')]
    t = [CN('T0', deg_spec='*'), CN('T1', deg_spec='?')]
    c1 = g.add_selection_choice('C1', r, a)
    c2 = g.add_selection_choice('C2', r, b)
    g.add_edges([(r, s[0]), (a[1], s[1]), (r, t[0]), (b[1], t[1])])
    cc = g.add_connection_choice('K', s, t, exclude=[(s[1], t[1])])
    return g.set_start_nodes({r}), dict(sel=[c1, c2], conn=[cc], src=s, tgt=t)


def _conn_rep_pair(rep):
    B, N, CN, *_ = _imp()
    g = B()
    r = N('R')
    a = [N('A0'), N('A1')]
    s = [CN('S0', deg_list=[1, 2], repeated_allowed=rep), CN('S1', deg_spec='?')]
    t = [CN('T0', deg_spec='*', repeated_allowed=True), CN('T1', deg_spec='?', repeated_allowed=True)]
    c1 = g.add_selection_choice('C1', r, a)
    g.add_edges([(r, s[0]), (a[1], s[1]), (r, t[0]), (r, t[1])])
    cc = g.add_connection_choice('K', s, t)
    return g.set_start_nodes({r}), dict(sel=[c1], conn=[cc], src=s, tgt=t)


def t_conn_rep_a():
    """two models that differ only in whether a source accepts repeated connections (evaluated one after the other
    in the same process and cache directory by C11's `scenario_pair`)"""
    return _conn_rep_pair(True)


def t_conn_rep_b():
    return _conn_rep_pair(False)


def t_conn_two():
    B, N, CN, *_ = _imp()
    g = B()
    r = N('R')
    a = [N('A0'), N('A1')]
    s = [CN('S0', deg_spec='?'), CN('S1', deg_list=[1])]
    t = [CN('T0', deg_spec='*')]
    u = [CN('U0', deg_spec='*')]
    v = [CN('V0', deg_spec='?'), CN('V1', deg_spec='?')]
    c1 = g.add_selection_choice('C1', r, a)
    g.add_edges([(r, s[0]), (a[0], s[1]), (r, t[0]), (r, u[0]), (r, v[0]), (a[1], v[1])])
    k1 = g.add_connection_choice('K1', s, t)
    k2 = g.add_connection_choice('K2', u, v)
    return g.set_start_nodes({r}), dict(sel=[c1], conn=[k1, k2], src=s, tgt=t)


def t_conn_dv():
    """selection choice + connection choice + design variables (for fix/free sequences)"""
    B, N, CN, G, DV, *_ = _imp()
    g = B()
    r = N('R')
    a = [N('A0'), N('A1')]
    s = [CN('S0', deg_spec='?')]
    t = [CN('T0', deg_spec='?'), CN('T1', deg_spec='?')]
    d = DV('D', options=[1, 2])
    c = DV('C', bounds=(0., 1.))
    c1 = g.add_selection_choice('C1', r, a)
    g.add_edges([(r, s[0]), (r, t[0]), (a[1], t[1]), (a[0], d), (r, c)])
    cc = g.add_connection_choice('K', s, t)
    return g.set_start_nodes({r}), dict(sel=[c1], conn=[cc], src=s, tgt=t, dv=[d, c])


TEMPLATES = {
    'two_indep': t_two_indep, 'nested': t_nested, 'nested3': t_nested3, 'incompat': t_incompat, 'incompat3': t_incompat3, 'shared_option': t_shared_option, 'forced': t_forced,
    'dv': t_dv, 'dv_single': t_dv_single, 'dv_or_existence': t_dv_or_existence, 'dv_linked': t_dv_linked, 'dv_linked_late': t_dv_linked_late, 'dv_linked_interleaved': t_dv_linked_interleaved, 'dv_or_direct': t_dv_or_direct, 'dv_same_name': t_dv_same_name, 'dv_linked3_cond': t_dv_linked3_cond, 'sel_linked': t_sel_linked, 'sel_forced_linked': t_sel_forced_linked, 'sel_linked_nested': t_sel_linked_nested, 'sel_linked_incompat': t_sel_linked_incompat,
    'conn_simple': t_conn_simple, 'conn_cond': t_conn_cond, 'conn_opt_src': t_conn_opt_src,
    'conn_infeasible_scenario': t_conn_infeasible_scenario, 'conn_infeasible_dv': t_conn_infeasible_dv, 'conn_rows_eq_combs': t_conn_rows_eq_combs, 'conn_cond_choice_dv': t_conn_cond_choice_dv, 'conn_parallel_absent': t_conn_parallel_absent, 'conn_parallel_required': t_conn_parallel_required, 'conn_group': t_conn_group,
    'conn_group_finite': t_conn_group_finite, 'conn_group_open': t_conn_group_open, 'conn_group_open2': t_conn_group_open2, 'conn_excl': t_conn_excl, 'conn_two': t_conn_two, 'conn_two_exclusive': t_conn_two_exclusive, 'conn_dv': t_conn_dv,
    'conn_excl_shift': t_conn_excl_shift, 'conn_two_infeasible': t_conn_two_infeasible,
    'conn_group_no_counterpart': t_conn_group_no_counterpart, 'conn_cond_choice': t_conn_cond_choice,
    'conn_group_tgt': t_conn_group_tgt, 'conn_group_excl': t_conn_group_excl, 'conn_group3': t_conn_group3, 'conn_chain': t_conn_chain,
    'conn_excl_cond2': t_conn_excl_cond2, 'conn_rep_a': t_conn_rep_a, 'conn_rep_b': t_conn_rep_b,
}
CONN_TEMPLATES = [k for k in TEMPLATES if k.startswith('conn_')]
NO_CONN_TEMPLATES = [k for k in TEMPLATES if not k.startswith('conn_')]


class stub_selector:
    """Within the block `EncoderSelector.get_best_assignment_manager` returns LazyAssignmentManager(settings,
    DEFAULT_LAZY_ENCODER()) (DESIGN.md 2.2: selection is driven by wall-clock timeouts and on-disk pickles and is the
    subject of C12; what the claimed properties read from the manager does not depend on which encoder was picked)."""

    def __enter__(self):
        from adsg_core.optimization.assign_enc import selector as sel
        from adsg_core.optimization.assign_enc.assignment_manager import LazyAssignmentManager
        from adsg_core.optimization.assign_enc.encoder_registry import DEFAULT_LAZY_ENCODER
        self._sel = sel
        self._orig = sel.EncoderSelector.get_best_assignment_manager

        def stub(self_, cache=True, limit_time=True):
            return LazyAssignmentManager(self_.settings, DEFAULT_LAZY_ENCODER())
        sel.EncoderSelector.get_best_assignment_manager = stub
        return self

    def __exit__(self, *a):
        self._sel.EncoderSelector.get_best_assignment_manager = self._orig
        return False


def get_template(name):
    """hand-written template, or 'rnd<seed>' from the seeded generator (pools/dsg_random.py)"""
    if name.startswith('rnd'):
        from pools import dsg_random
        return dsg_random.random_template(int(name[3:]))
    return TEMPLATES[name]()


def make_processor(name, encoder_type=None):
    from adsg_core import GraphProcessor
    g, info = get_template(name)
    with stub_selector():
        gp = GraphProcessor(g, encoder_type=encoder_type)
        _ = gp.des_vars  # triggers the encoding of connection choices inside the stubbed region
    return gp, g, info
