"""
Development tool (not a registered check): behaviour-preserving changes (refactorings written by sub-agents that were
given only the property text) are applied to a scratch copy of the repository and the quick checks are run against it;
every check has to stay silent (exit 0, no VIOLATION line, no harness error).

  python tools/run_benign.py /tmp/mut/C15_b1 [m1 m2 ...] [--all-checks]

Keeps the patch under /verif/benign/<id>/ with the outcome (result.json).
"""
import os
import re
import sys
import json
import shutil
import subprocess

VERIF = os.path.dirname(os.path.dirname(os.path.abspath(__file__)))
ALL = ['C07', 'C09', 'C10', 'C11', 'C13', 'C15', 'C16', 'C17']
RELATED = {'C09': ['C09', 'C10', 'C11'], 'C10': ['C10', 'C07'], 'C07': ['C07', 'C10', 'C15'], 'C11': ['C11', 'C09'],
           'C13': ['C13', 'C16'], 'C15': ['C15', 'C07'], 'C16': ['C16', 'C13', 'C15'], 'C17': ['C17']}


def sh(cmd, timeout=7200, env=None, cwd=None):
    e = dict(os.environ)
    e.update(env or {})
    r = subprocess.run(cmd, shell=True, capture_output=True, text=True, timeout=timeout, env=e, cwd=cwd)
    return r.returncode, r.stdout+r.stderr


def rerun_stored(only_own=True):
    """run the checks again on the patches kept under /verif/benign (scratch copy of the repository)"""
    import glob
    scratch = '/tmp/benign_repo_all'
    sh(f'git -C /repo worktree remove --force {scratch}')
    rc, out = sh(f'git -C /repo worktree add --detach {scratch} HEAD')
    if rc != 0:
        print(out)
        return 2
    ev_dir, rp_dir = scratch+'_evidence', scratch+'_replays'
    env = dict(VERIF_REPO=scratch, VERIF_EVIDENCE_DIR=ev_dir, VERIF_REPLAY_DIR=rp_dir, VERIF_SEED='0')
    bad = 0
    try:
        for d in sorted(glob.glob(os.path.join(VERIF, 'benign', '*'))):
            sid = os.path.basename(d)
            prop = sid.split('_')[0]
            rc, out = sh(f'git apply {d}/patch.diff', cwd=scratch)
            if rc != 0:
                print(f'{sid}: patch does not apply')
                continue
            res = {}
            try:
                for c in ([prop] if only_own else RELATED[prop]):
                    shutil.rmtree(rp_dir, ignore_errors=True)
                    rc, out = sh(f'/verif/.venv/bin/python -m checks.run {c} --tier quick', env=env, cwd=VERIF)
                    viol = re.findall(r'VIOLATION property=(\S+) replay=(\S+)', out)
                    status = 'silent' if rc == 0 and not viol else ('FALSE ALARM' if viol else f'exit {rc}')
                    bad += status != 'silent'
                    errs = [l for l in out.split('\n') if 'harness_error:' in l][:3]
                    res[c] = dict(status=status, exit=rc, last_line=out.strip().split('\n')[-1][:200], errors=errs)
                    print(f'{sid}: {c}: {status} {errs[:1] if rc else ""}', flush=True)
            finally:
                sh('git checkout -- .', cwd=scratch)
                sh('git clean -fdq adsg_core', cwd=scratch)
            old = {}
            rj = os.path.join(d, 'result.json')
            if os.path.exists(rj):
                old = json.load(open(rj))
            old['final_rerun'] = res
            json.dump(old, open(rj, 'w'), indent=1)
    finally:
        sh(f'git -C /repo worktree remove --force {scratch}')
        shutil.rmtree(ev_dir, ignore_errors=True)
        shutil.rmtree(rp_dir, ignore_errors=True)
    print('not silent:', bad)
    return 0


def main():
    if sys.argv[1] == '--rerun-stored':
        return rerun_stored(only_own='--related' not in sys.argv)
    wt = sys.argv[1].rstrip('/')
    args = [a for a in sys.argv[2:] if not a.startswith('--')]
    all_checks = '--all-checks' in sys.argv
    prop = os.path.basename(wt).split('_')[0]
    ms = args or sorted(d for d in os.listdir(os.path.join(wt, '_mutation')) if re.match(r'm\d+$', d))
    scratch = f'/tmp/benign_repo_{prop}'
    sh(f'git -C /repo worktree remove --force {scratch}')
    rc, out = sh(f'git -C /repo worktree add --detach {scratch} HEAD')
    if rc != 0:
        print(out)
        return 2
    ev_dir, rp_dir = scratch+'_evidence', scratch+'_replays'
    env = dict(VERIF_REPO=scratch, VERIF_EVIDENCE_DIR=ev_dir, VERIF_REPLAY_DIR=rp_dir, VERIF_SEED='0')
    try:
        for m in ms:
            src = os.path.join(wt, '_mutation', m)
            sid = f'{os.path.basename(wt)}_{m}'
            dst = os.path.join(VERIF, 'benign', sid)
            os.makedirs(dst, exist_ok=True)
            for f in ('patch.diff', 'meta.json', 'equiv.py'):
                if os.path.exists(os.path.join(src, f)):
                    shutil.copy(os.path.join(src, f), os.path.join(dst, f))
            rc, out = sh(f'git apply {src}/patch.diff', cwd=scratch)
            if rc != 0:
                print(f'{sid}: patch does not apply: {out[-200:]}')
                continue
            res = {}
            try:
                for c in (ALL if all_checks else RELATED[prop]):
                    shutil.rmtree(rp_dir, ignore_errors=True)
                    rc, out = sh(f'/verif/.venv/bin/python -m checks.run {c} --tier quick', env=env, cwd=VERIF)
                    viol = re.findall(r'VIOLATION property=(\S+) replay=(\S+)', out)
                    kinds = []
                    for _, path in viol[:20]:
                        try:
                            r = json.load(open(path))
                            k = f"{r['check']}:{r['signature'].get('kind')}"
                            if k not in kinds:
                                kinds.append(k)
                        except Exception:  # noqa
                            pass
                    status = 'silent' if rc == 0 and not viol else ('FALSE ALARM' if viol else f'exit {rc}')
                    errs = [l for l in out.split('\n') if 'harness_error:' in l or 'Error' in l][:4]
                    res[c] = dict(status=status, exit=rc, kinds=kinds, last_line=out.strip().split('\n')[-1][:200], errors=errs)
                    print(f'{sid}: {c}: {status} {kinds[:3]} {errs[:2] if rc else ""}', flush=True)
            finally:
                sh('git checkout -- .', cwd=scratch)
                sh('git clean -fdq adsg_core', cwd=scratch)
            json.dump(dict(id=sid, property=prop, checks=res), open(os.path.join(dst, 'result.json'), 'w'), indent=1)
    finally:
        sh(f'git -C /repo worktree remove --force {scratch}')
        shutil.rmtree(ev_dir, ignore_errors=True)
        shutil.rmtree(rp_dir, ignore_errors=True)
    return 0


if __name__ == '__main__':
    sys.exit(main())
