"""
C09 - connection-set enumeration is exact (DESIGN.md section 4).

Per (settings, existence pattern):
  V(M)    summary of the real `_validate_matrix` / `_check_conns` (Python source of the numba kernels) on a matrix of
          unbounded symbolic non-negative integers, reached through the real `validate_matrix` method
  Spec(M) independent specification (spec/conn.py)
  listed  what the real enumerator returns (`get_agg_matrix`), concrete
  Q1: V(M) != Spec(M) unsat     Q2: Spec(M) != (M in listed) unsat     vacuity: V and Spec sat iff listed non-empty
plus, concretely: rows distinct, count (cold counting path) == len(listed), jitted validator == summary on one model per
path (concolic validation) and == Spec on listed matrices and their +-1 neighbours.
"""
import os
import zlib
import itertools
import numpy as np
import z3
from checks.common import *
from checks.connlib import *
from pools import conn as pool
from symx import *

PROP = 'C09'
META = dict(
    level='model_checking',
    functions=['adsg_core.optimization.assign_enc.matrix._validate_matrix (py_func)',
               'adsg_core.optimization.assign_enc.matrix._check_conns (py_func)',
               'adsg_core.optimization.assign_enc.matrix.AggregateAssignmentMatrixGenerator.validate_matrix'],
    bounds=dict(connectors='<= 3x3, plus 1x4, 4x1, 2x4 and 4x2', degree_values='<= 3 in lists, minima <= 2', matrix_entries='any non-negative integer (unbounded)',
                path_cap=20000, query_timeout_s=20),
    outside=['negative matrix entries', 'more than 3 connectors on both sides, more than 4 on one side',
             'histories other than: counting before listing, a filtered iteration or an abandoned iteration before a full listing, '
             'two different settings (one of five one-step variants) enumerated one after the other in one cache (cache_pair instances, concrete)',
             'the enumerator and counter themselves run concretely: their output is compared with the specification by '
             'the solver (Q2), their code is not executed symbolically'],
    stubs=['numba kernels executed from .py_func (jitted versions cross-checked on one model per path)',
           'XDG_CACHE_HOME redirected to a temporary directory'],
    assumptions=['matrix entries >= 0', 'specification of valid connection sets as in spec/conn.py (DESIGN 2.4)',
                 'z3 is sound for linear integer arithmetic'],
    explanation='bounded symbolic execution of the validity kernels; states = explored path classes, transitions = '
                'decisions, traces validated = one native (jitted) run per path',
)
INSTANCE_CAP_S = 240


def instances(tier, seed):
    out = []
    spool = pool.pool(tier, seed, with_max=True, wide=True)
    for k, s in enumerate(spool):
        out.append(dict(label=f'{k:05d} {s.get("name") or ""} {pool.settings_label(s)}', s=s))
    # two *different* settings enumerated one after the other in the same on-disk cache
    n_pairs = 0
    for k, s in enumerate(spool):
        for what, b in _variants(s):
            out.append(dict(label=f'cache_pair {k:05d} {what}: {pool.settings_label(s)} | {pool.settings_label(b)}', kind='cache_pair', s=s, b=b, what=what))
            n_pairs += 1
        if n_pairs >= (60 if tier == 'quick' else 600):
            break
    return out


def _variants(s):
    """settings that differ from s in one respect that changes the set of valid matrices for some pattern"""
    import copy
    out = []
    if s.get('mcp') is None:
        sp = spec_of(s, s['patterns'][0])
        b = copy.deepcopy(s)
        b['mcp'] = sp.parallel  # explicit value of what is derived when unset (derived per existence pattern!)
        out.append(('explicit max_conn_parallel', b))
    for side in ('src', 'tgt'):
        b = copy.deepcopy(s)
        b[side][0]['rep'] = not b[side][0]['rep']
        out.append((f'{side}0 repeatability flipped', b))
    if not s['excluded']:
        b = copy.deepcopy(s)
        b['excluded'] = [(0, 0)]
        out.append(('pair (0,0) excluded', b))
    c0 = s['src'][0]
    b = copy.deepcopy(s)
    if c0['conns'] is not None:
        b['src'][0] = dict(conns=None, min=min(c0['conns']), rep=c0['rep'])
    else:
        b['src'][0] = dict(conns=[c0['min'], c0['min']+1], min=None, rep=c0['rep'])
    out.append(('src0 list <-> open-ended', b))
    return out


def _run_cache_pair(inst):
    from adsg_core.optimization.assign_enc.matrix import AggregateAssignmentMatrixGenerator
    a, b = inst['s'], inst['b']
    res = new_result(inst['label'])

    def listing(s_, cache):
        st, ex = pool.to_settings(s_)
        agg = AggregateAssignmentMatrixGenerator(st).get_agg_matrix(cache=cache)
        return [sorted(np.array(m).tolist() for m in agg[e]) for e in ex]
    old = os.environ.get('XDG_CACHE_HOME')
    try:
        isolate_cache()
        ref_a, ref_b = listing(a, False), None
        isolate_cache()
        ref_b = listing(b, False)
        for first, second, ref2, names in ((a, b, ref_b, 'A then B'), (b, a, ref_a, 'B then A')):
            isolate_cache()
            listing(first, True)
            got = listing(second, True)
            res['obligations'] += 1
            bad = [k for k in range(len(got)) if got[k] != ref2[k]]
            if bad:
                res['status'] = VIOLATION
                k = bad[0]
                res['violations'].append(violation_record(
                    PROP, 'cache_pair', dict(kind='listing_depends_on_other_settings_in_cache', what=inst['what'], order=names,
                                             settings=pool.settings_label(second), pattern=pool.pattern_label(second['patterns'][k])),
                    dict(first=s_plain(first), second=s_plain(second)), dict(pattern_index=k),
                    dict(listed_after_other_settings=len(got[k])), dict(listed_in_fresh_cache=len(ref2[k])),
                    replay_args=dict(kind='cache_pair', first=s_plain(first), second=s_plain(second), k_pat=k)))
            else:
                res['discharged'] += 1
            res['validated'] += 1
        # the fresh listings themselves are decided against the specification by the main instances; here only a
        # concrete cross-check that they satisfy it
        for s_, ref in ((a, ref_a), (b, ref_b)):
            for k, pat in enumerate(s_['patterns']):
                sp = spec_of(s_, pat)
                res['obligations'] += 1
                if all(sp.holds(m) for m in ref[k]):
                    res['discharged'] += 1
                else:
                    res['status'] = HARNESS_ERROR
                    res['notes'].append(f'fresh listing violates the specification: {pool.settings_label(s_)} {pool.pattern_label(pat)}')
    finally:
        if old is not None:
            os.environ['XDG_CACHE_HOME'] = old
    res['paths'] = 2
    res['sample'] = dict(harness='cache_pair', what=inst['what'])
    return res


def _native_validate(s, k_pat, m):
    from adsg_core.optimization.assign_enc.matrix import AggregateAssignmentMatrixGenerator
    settings, exist = pool.to_settings(s)
    gen = AggregateAssignmentMatrixGenerator(settings)
    return bool(gen.validate_matrix(np.array(m, dtype=int).reshape(len(s['src']), len(s['tgt'])), existence=exist[k_pat]))


def _native_listed(s, k_pat):
    from adsg_core.optimization.assign_enc.matrix import AggregateAssignmentMatrixGenerator
    settings, exist = pool.to_settings(s)
    gen = AggregateAssignmentMatrixGenerator(settings)
    gen.reset_agg_matrix_cache()
    agg = gen.get_agg_matrix(cache=False)
    return [m.tolist() for m in agg[exist[k_pat]]]


def _sig(kind, s, pat, **kw):
    d = dict(kind=kind, settings=pool.settings_label(s), pattern=pool.pattern_label(pat))
    d.update(kw)
    return d


def _cause(s, pat, m):
    """classify a validator/spec disagreement: does a row/column sum reach beyond the override table of an overridden
    connector (the fall-through of `_validate_matrix`)?"""
    ns, nt = len(s['src']), len(s['tgt'])
    def width(ov, nodes):
        if not ov:
            return 0
        fin = [max(c['conns']) for c in nodes if c['conns'] is not None]
        return max(max(max(v) for v in ov.values()), max(fin) if fin else 0)+1
    ws, wt = width(pat['src_override'], s['src']), width(pat['tgt_override'], s['tgt'])
    for i in range(ns):
        if i in pat['src_override'] and sum(m[i]) >= ws:
            return 'override_fallthrough'
    for j in range(nt):
        if j in pat['tgt_override'] and sum(m[i][j] for i in range(ns)) >= wt:
            return 'override_fallthrough'
    return 'other'


def run_instance(inst, tier='quick', seed=0):
    from adsg_core.optimization.assign_enc.matrix import AggregateAssignmentMatrixGenerator
    if inst.get('kind') == 'cache_pair':
        return _run_cache_pair(inst)
    s = inst['s']
    res = new_result(inst['label'])
    ns, nt = len(s['src']), len(s['tgt'])
    prover = Prover(res)

    def violation(kind, pat, k_pat, m, observed, expected, **sig):
        res['status'] = VIOLATION
        res['violations'].append(violation_record(
            PROP, 'c09', _sig(kind, s, pat, **sig), dict(settings=s_plain(s), pattern=pat, pattern_index=k_pat),
            dict(matrix=m), observed, expected, replay_args=dict(kind=kind, s=s_plain(s), k_pat=k_pat, matrix=m)))

    try:
        settings, exist = pool.to_settings(s)
        gen = AggregateAssignmentMatrixGenerator(settings)
        gen.reset_agg_matrix_cache()
        n_sum_cold = gen.count_all_matrices(max_by_existence=False)  # counting path (no cached listing)
        n_max_cold = gen.count_all_matrices(max_by_existence=True)
        count_by = {}
        for n_src_conn, n_tgt_conn, e in gen.iter_n_sources_targets():
            count_by[e] = count_by.get(e, 0)+gen.count_matrices(n_src_conn, n_tgt_conn, e)
        gen.reset_agg_matrix_cache()
        agg = gen.get_agg_matrix(cache=False)
    except Exception as e:  # the enumerator itself fails on a specification
        import traceback
        res['status'] = VIOLATION
        res['violations'].append(violation_record(
            PROP, 'c09', dict(kind='enumeration_raises', settings=pool.settings_label(s), exc=type(e).__name__),
            dict(settings=s_plain(s)), None, f'{type(e).__name__}: {e}', 'enumeration returns',
            replay_args=dict(kind='enumeration_raises', s=s_plain(s))))
        res['notes'].append(traceback.format_exc()[-800:])
        return res

    lens = []
    for k_pat, pat in enumerate(s['patterns']):
        e = exist[k_pat]
        listed = agg.get(e)
        if listed is None:
            violation('pattern_missing', pat, k_pat, None, 'no entry for pattern in get_agg_matrix', 'entry')
            continue
        listed_l = [m.tolist() for m in listed]
        lens.append(len(listed_l))
        spec = spec_of(s, pat)

        # --- symbolic summary of the validator
        tracer = FuncTracer() if k_pat == 0 else None
        if tracer:
            tracer.__enter__()
        try:
            ex, V, T, pre = summarise_validator(gen, e, ns, nt, time_cap_s=INSTANCE_CAP_S/2)
        finally:
            if tracer:
                tracer.__exit__()
                res['functions'] = sorted(set(res['functions']) | tracer.names)
        absorb(res, ex)
        if not ex.complete:
            res['status'] = INCONCLUSIVE if res['status'] == HOLDS else res['status']
            res['notes'].append(f'{pool.pattern_label(pat)}: {ex.status}')
            continue
        if any(p.kind == 'exc' for p in ex.paths):
            p = [p for p in ex.paths if p.kind == 'exc'][0]
            r, model = prover.refute(pre, p.cond())
            m = model_matrix(model, T) if model is not None else None
            ok = None
            try:
                ok = _native_validate(s, k_pat, m)
            except Exception as x:  # noqa
                violation('validator_raises', pat, k_pat, m, f'{type(x).__name__}: {x}', 'bool')
            if ok is not None:
                res['status'] = HARNESS_ERROR
                res['notes'].append(f'symbolic run raised {p.exc!r} but native run returned {ok} on {m}')
            continue
        res['obligations'] += 1
        if ex.exhaustive():
            res['discharged'] += 1
        else:
            res['status'] = HARNESS_ERROR
            res['notes'].append('summary not exhaustive')
            continue

        S = spec.formula(T)
        L = member_formula(T, listed_l)

        # Q1: validator == specification
        r, model = prover.refute(pre, V != S)
        if r == 'sat':
            m = model_matrix(model, T)
            got, want = _native_validate(s, k_pat, m), spec.holds(m)
            if got != want:
                violation('validator_vs_spec', pat, k_pat, m, dict(validate_matrix=got, in_listed=m in listed_l),
                          dict(spec=want), cause=_cause(s, pat, m), accepts=got)
            else:
                res['status'] = HARNESS_ERROR
                res['notes'].append(f'Q1 model does not reproduce natively: {m} validate={got} spec={want}')
        elif r != 'unsat':
            res['status'] = INCONCLUSIVE if res['status'] == HOLDS else res['status']
            res['notes'].append(f'Q1 {r}')

        # second opinion (thorough tier, a sample of the instances): the two closing queries as SMT-LIB2 text through the
        # z3 4.8.12 and cvc5 1.0.3 binaries; an `(error` line or a differing answer makes the instance inconclusive
        if tier == 'thorough' and k_pat == 0 and (zlib.crc32(inst['label'].encode()) % 10 == 0):
            for qname, neg in (('Q1', V != S), ('Q2', S != L)):
                ans = run_external_solvers(prover.smt2(pre, neg), timeout_s=20)
                res.setdefault('second_solver', []).append(dict(query=qname, answers=ans))
                if any(a_ != 'unsat' for a_ in ans.values()):
                    # only meaningful if the in-process solver says unsat; compared below through the status
                    res['notes'].append(f'second solver on {qname}: {ans}')
                    res['second_solver_disagrees'] = True

        # Q2: enumeration == specification
        r, model = prover.refute(pre, S != L)
        if r == 'sat':
            m = model_matrix(model, T)
            nat = _native_listed(s, k_pat)
            got, want = m in nat, spec.holds(m)
            if got != want:
                violation('listed_vs_spec', pat, k_pat, m, dict(in_listed=got, validate_matrix=_native_validate(s, k_pat, m)),
                          dict(spec=want), missing=want)
            else:
                res['status'] = HARNESS_ERROR
                res['notes'].append(f'Q2 model does not reproduce natively: {m} listed={got} spec={want}')
        elif r != 'unsat':
            res['status'] = INCONCLUSIVE if res['status'] == HOLDS else res['status']
            res['notes'].append(f'Q2 {r}')

        # vacuity / reachability: the accepting region is non-empty exactly when something is listed; the
        # precondition alone is satisfiable (twin of Q1/Q2 with the claim replaced by False)
        sat_vs = prover.satisfiable(*pre, V, S)
        if (sat_vs == 'sat') != (len(listed_l) > 0) and res['status'] == HOLDS:
            res['status'] = HARNESS_ERROR
            res['notes'].append(f'vacuity: V and Spec is {sat_vs} but {len(listed_l)} matrices are listed')
        if prover.satisfiable(*pre) != 'sat':
            res['status'] = HARNESS_ERROR
            res['notes'].append('precondition unsatisfiable')

        # concolic validation: one model per path, through the jitted validator
        sv = z3.Solver()
        sv.add(*pre)
        for p in ex.paths:
            sv.push()
            sv.add(p.cond())
            if str(sv.check()) == 'sat':
                mdl = sv.model()
                m = model_matrix(mdl, T)
                want = p.value if not is_sym(p.value) else bool(z3.is_true(mdl.eval(z3val(p.value), model_completion=True)))
                got = bool(gen.validate_matrix(np.array(m, dtype=int).reshape(ns, nt), existence=e))
                if got != bool(want):
                    res['status'] = HARNESS_ERROR
                    res['notes'].append(f'concolic mismatch on {m}: path says {want}, jitted validator says {got}')
                res['validated'] += 1
            sv.pop()

        # concrete cross-checks (auxiliary): distinct rows, count, jitted validator vs spec near the listed set
        keys = {tuple(np.ravel(m)) for m in listed_l}
        if len(keys) != len(listed_l):
            dup = [m for m in listed_l if listed_l.count(m) > 1][0]
            violation('duplicate_row', pat, k_pat, dup, 'listed more than once', 'each listed once')
        if count_by.get(e, 0) != len(listed_l):
            violation('count_vs_listed', pat, k_pat, None, dict(count=count_by.get(e, 0)), dict(listed=len(listed_l)))
        probes = []
        for m in listed_l[:60]:
            probes.append(m)
            for i in range(ns):
                for j in range(nt):
                    for d in (1, -1):
                        if m[i][j]+d >= 0:
                            mm = [row[:] for row in m]
                            mm[i][j] += d
                            probes.append(mm)
        seen = set()
        for m in probes:
            key = tuple(np.ravel(m))
            if key in seen:
                continue
            seen.add(key)
            got = bool(gen.validate_matrix(np.array(m, dtype=int).reshape(ns, nt), existence=e))
            want = spec.holds(m)
            if got != want:
                violation('validator_vs_spec', pat, k_pat, m, dict(validate_matrix=got, in_listed=key in keys),
                          dict(spec=want), cause=_cause(s, pat, m), accepts=got)
                break

        if res['sample'] is None and len(listed_l) > 0 and len(ex.paths) > 1:
            res['sample'] = dict(settings=pool.settings_label(s), pattern=pool.pattern_label(pat), paths=len(ex.paths),
                                 listed=len(listed_l), spec_limit=spec.limit,
                                 accepting_path_condition=str(z3.simplify(ex.paths[-1].cond()))[:400],
                                 queries=['V(M) != Spec(M): unsat', 'Spec(M) != (M in listed): unsat'])

    # query order: on a cold cache, a filtered iteration for one pattern first, then the full listing on a new generator
    if res['status'] == HOLDS and len(s['patterns']) > 1:
        try:
            k0 = (len(s['src'])+len(s['tgt'])) % len(s['patterns'])
            g1 = AggregateAssignmentMatrixGenerator(pool.to_settings(s)[0])
            g1.reset_agg_matrix_cache()
            # an iteration that is abandoned after its first matrix, then a full listing on a new generator
            st0, ex0 = pool.to_settings(s)
            g0 = AggregateAssignmentMatrixGenerator(st0)
            for _m, _e in g0.iter_matrices():
                break
            del g0
            st0, ex0 = pool.to_settings(s)
            agg0 = AggregateAssignmentMatrixGenerator(st0).get_agg_matrix(cache=False)
            res['obligations'] += 1
            bad0 = [k_ for k_ in range(len(exist)) if sorted(m.tolist() for m in agg0[ex0[k_]]) != sorted(m.tolist() for m in agg[exist[k_]])]
            if bad0:
                violation('listing_depends_on_query_order', s['patterns'][bad0[0]], bad0[0], None,
                          dict(after_abandoned_iteration=len(agg0[ex0[bad0[0]]])), dict(listed=len(agg[exist[bad0[0]]])), first_query='abandoned iter_matrices()')
            else:
                res['discharged'] += 1
            g1.reset_agg_matrix_cache()
            st1, ex1 = pool.to_settings(s)
            g1 = AggregateAssignmentMatrixGenerator(st1)
            got0 = sorted(np.array(m).tolist() for mats in [list(g1.iter_matrices(existence=ex1[k0]))] for m, _ in mats)
            st2, ex2 = pool.to_settings(s)
            g2 = AggregateAssignmentMatrixGenerator(st2)
            agg2 = g2.get_agg_matrix(cache=False)
            res['obligations'] += 2
            want0 = sorted(m.tolist() for m in agg[exist[k0]])
            if got0 != want0:
                violation('iter_matrices_vs_listed', s['patterns'][k0], k0, None, dict(iter_matrices=len(got0)), dict(listed=len(want0)))
            else:
                res['discharged'] += 1
            bad = [k_ for k_ in range(len(exist)) if sorted(m.tolist() for m in agg2[ex2[k_]]) != sorted(m.tolist() for m in agg[exist[k_]])]
            if bad:
                violation('listing_depends_on_query_order', s['patterns'][bad[0]], bad[0], None,
                          dict(after_filtered_iteration=len(agg2[ex2[bad[0]]])), dict(listed=len(agg[exist[bad[0]]])), first_query=pool.pattern_label(s['patterns'][k0]))
            else:
                res['discharged'] += 1
            g2.reset_agg_matrix_cache()
        except Exception as e:  # noqa
            violation('iter_matrices_raises', s['patterns'][0], 0, None, f'{type(e).__name__}: {e}', 'matrices')

    if res.get('second_solver_disagrees') and res['status'] == HOLDS:
        res['status'] = INCONCLUSIVE  # the in-process solver refuted the negated claims, another solver did not confirm
    # API-level counts
    if n_sum_cold != sum(lens) and len(lens) == len(s['patterns']):
        violation('count_all_vs_listed', s['patterns'][0], 0, None, dict(count_all_matrices_sum=n_sum_cold), dict(listed_total=sum(lens)))
    if lens and n_max_cold != max(lens) and len(lens) == len(s['patterns']):
        violation('count_all_vs_listed', s['patterns'][0], 0, None, dict(count_all_matrices_max=n_max_cold), dict(listed_max=max(lens)))
    return res


def s_plain(s):
    d = dict(src=s['src'], tgt=s['tgt'], excluded=[list(e) for e in s['excluded']], mcp=s.get('mcp'),
             patterns=s['patterns'], name=s.get('name'))
    if s.get('construct'):
        d['construct'] = s['construct']
    if s.get('nodes'):
        d['nodes'] = s['nodes']
    return d


def replay(rec):
    a = rec['replay_args']
    s = a['s']
    s['excluded'] = [tuple(e) for e in s['excluded']]
    for p in s['patterns']:
        p['src_override'] = {int(k): v for k, v in p['src_override'].items()}
        p['tgt_override'] = {int(k): v for k, v in p['tgt_override'].items()}
    kind = a['kind']
    if kind == 'cache_pair':
        from adsg_core.optimization.assign_enc.matrix import AggregateAssignmentMatrixGenerator

        def fix(s_):
            s_['excluded'] = [tuple(e) for e in s_['excluded']]
            for p in s_['patterns']:
                p['src_override'] = {int(k): v for k, v in p['src_override'].items()}
                p['tgt_override'] = {int(k): v for k, v in p['tgt_override'].items()}
            return s_

        def listing(s_, cache):
            st, ex = pool.to_settings(s_)
            agg = AggregateAssignmentMatrixGenerator(st).get_agg_matrix(cache=cache)
            return [sorted(np.array(m).tolist() for m in agg[e]) for e in ex]
        first, second, k = fix(a['first']), fix(a['second']), a['k_pat']
        isolate_cache()
        ref = listing(second, False)
        isolate_cache()
        listing(first, True)
        got = listing(second, True)
        print(f'second settings {pool.settings_label(second)}, pattern {k}: {len(got[k])} matrices listed after the first settings '
              f'({pool.settings_label(first)}) were enumerated in the same cache; {len(ref[k])} in a fresh cache')
        return got[k] != ref[k]
    if kind == 'enumeration_raises':
        try:
            _native_listed(s, 0)
            return False
        except Exception as e:  # noqa
            print('raises', type(e).__name__, e)
            return True
    k, m = a['k_pat'], a.get('matrix')
    pat = s['patterns'][k]
    spec = spec_of(s, pat)
    listed = _native_listed(s, k)
    if m is None:
        print('listed', len(listed))
        return True
    v, sp, li = _native_validate(s, k, m), spec.holds(m), m in listed
    print(f'settings: {pool.settings_label(s)}\npattern: {pool.pattern_label(pat)}\nmatrix: {m}\n'
          f'validate_matrix (jitted): {v}\nlisted by get_agg_matrix: {li}\nspecification: {sp}')
    return not (v == sp == li)
