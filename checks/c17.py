"""
C17 - metrics are classified and evaluated by the documented contract (DESIGN.md section 4).

Classification: one metric node per configuration (placement x dir given x ref given x declared type); `dir` is a
symbolic integer, `ref` a symbolic real. The real GraphProcessor._get_metrics / _categorize_metrics /
Objective.from_metric_node / Constraint.from_metric_node run on it.
Evaluation: real DSGEvaluator.evaluate on both architectures of a small graph with an `_evaluate` stub that returns
symbolic reals for a swept subset of the present metric nodes, NaN for some, nothing for others.
"""
import math
import itertools
import z3
from checks.common import *
from symx import *

PROP = 'C17'
META = dict(
    level='other',
    functions=['adsg_core.optimization.graph_processor.GraphProcessor._get_metrics',
               'adsg_core.optimization.graph_processor.GraphProcessor._can_be_objective',
               'adsg_core.optimization.graph_processor.GraphProcessor._can_be_constraint',
               'adsg_core.optimization.graph_processor.GraphProcessor._categorize_metrics',
               'adsg_core.optimization.dv_output_defs.Objective.from_metric_node',
               'adsg_core.optimization.dv_output_defs.Constraint.from_metric_node',
               'adsg_core.optimization.evaluator.DSGEvaluator.evaluate'],
    bounds=dict(direction='any integer', reference='any real', evaluator_values='any real / NaN / missing',
                placements='metric under a permanent node or under one option of a selection choice',
                graphs='one metric node (classification); three metric nodes, two architectures (evaluation)'),
    outside=['graphs other than the templates (placement is a graph-structure quantifier)',
             'metric nodes that are conditional through longer derivation chains'],
    stubs=['_evaluate is the stub the API asks the user to provide', 'XDG_CACHE_HOME redirected'],
    assumptions=['z3 sound for LIA/LRA'],
    explanation='symbolic execution (symx + z3) of the metric typing and evaluation code; the symbolic content is thin '
                '(one sign test, pass-through of reals), the rest is a sweep of 40 placement/declaration configurations and '
                '2 architectures x 27 evaluator behaviours; every path is one solver obligation',
)
TYPES = [None, 'NONE', 'OBJECTIVE', 'CONSTRAINT', 'OBJ_OR_CON']


def instances(tier, seed):
    out = []
    for perm, has_dir, has_ref, ty in itertools.product((True, False, 'nested'), (True, False), (True, False), TYPES):
        out.append(dict(label=f'classify perm={perm} dir={has_dir} ref={has_ref} type={ty}', kind='classify',
                        perm=perm, has_dir=has_dir, has_ref=has_ref, type=ty))
    for arch in (0, 1):
        out.append(dict(label=f'evaluate arch={arch}', kind='evaluate', arch=arch))
    out.append(dict(label='order_stable', kind='order'))
    return out


def _mtype(name):
    from adsg_core import MetricType
    return None if name is None else MetricType[name]


def _mk_classify_graph(perm, d, r, ty):
    """perm: True = under the start node; False = under option B of a choice; 'nested' = under a node X that option A
    derives directly and option B only through one option of a nested choice (X is missing from architecture B/Y)"""
    from adsg_core import BasicDSG, NamedNode, MetricNode
    g = BasicDSG()
    root, a, b = NamedNode('R'), NamedNode('A'), NamedNode('B')
    m = MetricNode('M', direction=d, ref=r, type_=_mtype(ty))
    g.add_selection_choice('C', root, [a, b])
    if perm == 'nested':
        x, y = NamedNode('X'), NamedNode('Y')
        g.add_edges([(a, x), (x, m)])
        g.add_selection_choice('C1', b, [x, y])
    else:
        g.add_edges([(root if perm else b, m)])
    g = g.set_start_nodes({root})
    return g, m


def _viol(res, check, sig, config, inputs, observed, expected):
    res['status'] = VIOLATION
    res['violations'].append(violation_record(PROP, check, sig, config, inputs, observed, expected,
                                              replay_args=dict(check=check, config=config, inputs=inputs)))


def _classify_native(perm, d, r, ty):
    from adsg_core import DSGEvaluator
    g, m = _mk_classify_graph(perm, d, r, ty)
    ev = DSGEvaluator(g)
    try:
        objs, cons = ev.objectives, ev.constraints
    except RuntimeError as e:
        return 'error', str(e)
    return [(o.name, o.sign) for o in objs], [(c.name, c.sign, c.ref) for c in cons]


def _expected(perm, has_dir, has_ref, ty):
    """documented contract -> 'obj' | 'con' | 'none' | 'error'"""
    if ty == 'NONE':
        return 'none'
    can_obj = has_dir and perm is True
    can_con = has_dir and has_ref
    if can_obj and can_con:
        if ty == 'OBJECTIVE':
            return 'obj'
        if ty == 'CONSTRAINT':
            return 'con'
        return 'error'
    if can_obj:
        return 'obj'
    if can_con:
        return 'con'
    return 'none'


def run_instance(inst, tier='quick', seed=0):
    res = new_result(inst['label'])
    with FuncTracer() as tr:
        globals()[f'_run_{inst["kind"]}'](inst, res)
    res['functions'] = sorted(tr.names)
    return res


def _run_classify(inst, res):
    from adsg_core import DSGEvaluator
    perm, has_dir, has_ref, ty = inst['perm'], inst['has_dir'], inst['has_ref'], inst['type']
    d = sym_int('dir') if has_dir else None
    r = sym_real('ref') if has_ref else None

    def run():
        g, m = _mk_classify_graph(perm, d, r, ty)
        ev = DSGEvaluator(g)
        try:
            objs, cons = ev.objectives, ev.constraints
        except RuntimeError:
            return 'error', None, None
        return 'ok', [(o.node is m, o.sign) for o in objs], [(c.node is m, c.sign, c.ref) for c in cons]
    ex = explore(run)
    absorb(res, ex)
    if not ex.complete:
        res['status'] = INCONCLUSIVE
        res['notes'].append(ex.status)
        return
    require_exhaustive(res, ex)
    want = _expected(perm, has_dir, has_ref, ty)
    for p in ex.paths:
        res['obligations'] += 1
        s = z3.Solver()
        s.add(p.cond())
        assert str(s.check()) == 'sat'
        mdl = s.model()
        dv = model_int(mdl, d) if has_dir else None
        rv = model_int(mdl, r) if has_ref else None
        cfg = dict(perm=perm, has_dir=has_dir, has_ref=has_ref, type=ty)
        if p.kind == 'exc':
            _viol(res, 'classify', dict(kind='raises', **cfg), cfg, dict(dir=dv, ref=rv), repr(p.exc), want)
            continue
        status, objs, cons = p.value
        got = 'error' if status == 'error' else ('obj' if objs else ('con' if cons else 'none'))
        bad = None
        if got != want:
            bad = f'role {got}, contract says {want}'
        elif status == 'ok' and (len(objs)+len(cons) > 1 or (objs and cons)):
            bad = 'used twice'
        elif got == 'obj':
            # sign = -1 iff dir <= 0, for every direction on this path
            sign = objs[0][1]
            s2 = z3.Solver()
            s2.add(p.cond(), z3.Not((d.e <= 0) == z3.BoolVal(sign == -1)))
            if str(s2.check()) != 'unsat' or sign not in (-1, 1) or not objs[0][0]:
                bad = f'objective sign {sign} does not follow the direction'
        elif got == 'con':
            node_ok, sign, ref = cons[0]
            s2 = z3.Solver()
            s2.add(p.cond(), z3.Not(z3.And((d.e <= 0) == z3.BoolVal(sign == -1), z3val(ref) == r.e)))
            if str(s2.check()) != 'unsat' or not node_ok:
                bad = f'constraint sign {sign} / reference {ref} do not follow the node'
        if bad:
            nat = _classify_native(perm, dv, float(rv) if rv is not None else None, ty)
            _viol(res, 'classify', dict(kind='contract', **cfg), cfg, dict(dir=dv, ref=rv), dict(symbolic=bad, native=nat), want)
        else:
            res['discharged'] += 1
        # concolic validation
        nat = _classify_native(perm, dv, float(rv) if rv is not None else None, ty)
        nat_role = 'error' if nat[0] == 'error' else ('obj' if nat[0] else ('con' if nat[1] else 'none'))
        if nat_role != got:
            res['status'] = HARNESS_ERROR
            res['notes'].append(f'concolic mismatch: dir={dv} ref={rv}: path {got}, native {nat_role}')
        res['validated'] += 1
    res['sample'] = dict(harness=inst['label'], expected_role=want, paths=[dict(pc=str(p.pc), outcome=str(p.value)[:200]) for p in ex.paths])


def _mk_eval_graph(refs):
    """R -> MO (objective, permanent), R -> MC (constraint, permanent), B -> MK (constraint, conditional: option B)"""
    from adsg_core import BasicDSG, NamedNode, MetricNode, MetricType
    g = BasicDSG()
    root, a, b = NamedNode('R'), NamedNode('A'), NamedNode('B')
    mo = MetricNode('o_obj', direction=-1)
    mc = MetricNode('c_perm', direction=1, ref=refs[0], type_=MetricType.CONSTRAINT)
    mk = MetricNode('k_cond', direction=-1, ref=refs[1])
    choice = g.add_selection_choice('C', root, [a, b])
    g.add_edges([(root, mo), (root, mc), (b, mk)])
    g = g.set_start_nodes({root})
    return g, choice, [a, b], (mo, mc, mk)


def _run_evaluate(inst, res):
    from adsg_core import DSGEvaluator
    arch = inst['arch']
    refs = [sym_real('ref_c'), sym_real('ref_k')]
    vals = [sym_real('v_o'), sym_real('v_c'), sym_real('v_k')]
    n_obl = 0
    for behaviour in itertools.product(('given', 'missing', 'nan'), repeat=3):
        def run():
            g, choice, opts, metrics = _mk_eval_graph(refs)

            class Ev(DSGEvaluator):
                def _evaluate(self, dsg, metric_nodes):
                    out = {}
                    for i, m in enumerate(metrics):
                        if m not in metric_nodes:
                            continue
                        if behaviour[i] == 'given':
                            out[m] = vals[i]
                        elif behaviour[i] == 'nan':
                            out[m] = math.nan
                    return out
            ev = Ev(g)
            inst_g = g.get_for_apply_selection_choice(choice, opts[arch])
            o, c = ev.evaluate(inst_g)
            return o, c, [inst_g.metric_value(m) for m in metrics], [ob.node for ob in ev.objectives], \
                [co.node for co in ev.constraints], metrics
        ex = explore(run)
        absorb(res, ex)
        if not ex.complete or len(ex.paths) != 1 or ex.paths[0].kind == 'exc':
            res['status'] = HARNESS_ERROR
            res['notes'].append(f'{behaviour}: {ex.status} {[p.exc for p in ex.paths]}')
            continue
        o, c, stored, onodes, cnodes, metrics = ex.paths[0].value
        mo, mc, mk = metrics
        present = [True, True, arch == 1]

        def want(i):
            if behaviour[i] == 'given':
                return vals[i]
            return math.nan
        problems = []
        if len(o) != len(onodes) or len(c) != len(cnodes) or onodes != [mo] or cnodes != [mc, mk]:
            problems.append(f'objectives/constraints: {onodes} {cnodes}, values {o} {c}')
        else:
            exp = [want(0)], [want(1), want(2) if present[2] else refs[1]]
            for got, w in zip(list(o)+list(c), exp[0]+exp[1]):
                res['obligations'] += 1
                n_obl += 1
                if isinstance(w, float):
                    ok = isinstance(got, float) and math.isnan(got)
                else:
                    ok = is_sym(got) and z3.is_true(z3.simplify(got.e == w.e))
                if ok:
                    res['discharged'] += 1
                else:
                    problems.append(f'value {got} where {w} expected')
            for i, m in enumerate(metrics):
                if present[i]:
                    w = want(i)
                    got = stored[i]
                    ok = (isinstance(got, float) and math.isnan(got)) if isinstance(w, float) else (is_sym(got) and z3.is_true(z3.simplify(got.e == w.e)))
                    if not ok:
                        problems.append(f'metric_values[{m}] = {got}, expected {w}')
        if problems:
            _viol(res, 'evaluate', dict(kind='evaluate', arch=arch, behaviour=list(behaviour)), dict(arch=arch),
                  dict(behaviour=list(behaviour)), problems, 'documented evaluate contract')
        res['validated'] += 1
    # concolic: native run with numbers
    nat = _evaluate_native(arch, ('given', 'missing', 'nan'), [1.5, -2.25], [3., 4., 5.])
    want_nat = ([3.], [math.nan, math.nan if arch == 1 else -2.25])
    if repr(nat) != repr(want_nat):
        _viol(res, 'evaluate', dict(kind='evaluate_native', arch=arch), dict(arch=arch),
              dict(behaviour=['given', 'missing', 'nan']), repr(nat), repr(want_nat))
    res['sample'] = dict(harness=inst['label'], behaviours=27, value_obligations=n_obl)


def _evaluate_native(arch, behaviour, refs, vals):
    from adsg_core import DSGEvaluator
    g, choice, opts, metrics = _mk_eval_graph(refs)

    class Ev(DSGEvaluator):
        def _evaluate(self, dsg, metric_nodes):
            out = {}
            for i, m in enumerate(metrics):
                if m not in metric_nodes:
                    continue
                if behaviour[i] == 'given':
                    out[m] = vals[i]
                elif behaviour[i] == 'nan':
                    out[m] = math.nan
            return out
    ev = Ev(g)
    inst_g = g.get_for_apply_selection_choice(choice, opts[arch])
    return ev.evaluate(inst_g)


def _run_order(inst, res):
    """objectives and constraints are listed in a stable order (by metric name), whatever the insertion order"""
    from adsg_core import BasicDSG, NamedNode, MetricNode, DSGEvaluator
    names = ['b', 'a', 'c']
    orders = []
    for perm_ in itertools.permutations(range(3)):
        g = BasicDSG()
        root = NamedNode('R')
        ms = [MetricNode(n, direction=-1) for n in names]
        g.add_edges([(root, ms[i]) for i in perm_])
        g = g.set_start_nodes({root})
        ev = DSGEvaluator(g)
        orders.append([o.name for o in ev.objectives])
        res['obligations'] += 1
        res['validated'] += 1
    if any(o != orders[0] for o in orders) or orders[0] != sorted(names):
        _viol(res, 'order', dict(kind='order'), {}, dict(names=names), orders, 'same (sorted) order for every insertion order')
    else:
        res['discharged'] += len(orders)
    res['paths'] = len(orders)
    res['sample'] = dict(harness='objective order', orders=orders[:2])


def replay(rec):
    a = rec['replay_args']
    cfg, inp = a['config'], a['inputs']
    if a['check'] == 'classify':
        def num(x):
            if isinstance(x, dict):
                return x['float']
            return x
        nat = _classify_native(cfg['perm'], num(inp['dir']), num(inp['ref']), cfg['type'])
        want = _expected(cfg['perm'], cfg['has_dir'], cfg['has_ref'], cfg['type'])
        role = 'error' if nat[0] == 'error' else ('obj' if nat[0] else ('con' if nat[1] else 'none'))
        print(f'config {cfg} dir={inp["dir"]} ref={inp["ref"]}: library -> {nat} ({role}); contract -> {want}')
        if role != want:
            return True
        if role == 'obj':
            return nat[0][0][1] != (-1 if num(inp['dir']) <= 0 else 1)
        if role == 'con':
            return nat[1][0][1] != (-1 if num(inp['dir']) <= 0 else 1) or nat[1][0][2] != num(inp['ref'])
        return False
    if a['check'] == 'evaluate':
        arch = cfg['arch']
        beh = inp['behaviour']
        nat = _evaluate_native(arch, beh, [1.5, -2.25], [3., 4., 5.])
        w = lambda i: [3., 4., 5.][i] if beh[i] == 'given' else math.nan  # noqa
        want = ([w(0)], [w(1), w(2) if arch == 1 else -2.25])
        print('evaluate ->', nat, 'expected', want)
        return repr(nat) != repr(want)
    return True
