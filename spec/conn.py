"""
Independent specification of the set of valid connection matrices (DESIGN.md 2.4), written from the documentation of
`MatrixGenSettings`, `Node`, `NodeExistence` and `LazyDirectMatrixEncoder` and from the statement of C09/C11 - not
derived from the enumerator or the validator.

A connector is described by a plain dict: {'conns': [..] | None, 'min': int | None, 'rep': bool}
A pattern by: {'src_override': {i: [..]}, 'tgt_override': {j: [..]}}, where an absent connector has override [0].
"""
import math
import z3

__all__ = ['conn', 'pattern', 'ConnSpec']


def conn(conns=None, min_=None, rep=True):
    if conns is not None:
        return dict(conns=sorted(int(c) for c in conns), min=None, rep=bool(rep))
    return dict(conns=None, min=int(min_), rep=bool(rep))


def pattern(n_src, n_tgt, src_absent=(), tgt_absent=(), src_override=None, tgt_override=None, max_src=None, max_tgt=None):
    """max_src / max_tgt: cap on the degree of every source / target connector that has no explicit override
    (NodeExistence.max_src_conn_override / max_tgt_conn_override)"""
    so = {int(k): sorted(int(x) for x in v) for k, v in (src_override or {}).items()}
    to = {int(k): sorted(int(x) for x in v) for k, v in (tgt_override or {}).items()}
    for i in src_absent:
        so[int(i)] = [0]
    for j in tgt_absent:
        to[int(j)] = [0]
    p = dict(src_override=so, tgt_override=to)
    if max_src is not None:
        p['max_src'] = int(max_src)
    if max_tgt is not None:
        p['max_tgt'] = int(max_tgt)
    return p


class ConnSpec:
    """Valid connection matrices of (src, tgt, excluded, pattern[, max_conn_parallel])"""

    def __init__(self, src, tgt, excluded=(), pat=None, max_conn_parallel=None):
        self.src, self.tgt = list(src), list(tgt)
        self.excluded = {(int(i), int(j)) for i, j in excluded}
        pat = pat or dict(src_override={}, tgt_override={})
        self.so = {int(k): list(v) for k, v in pat['src_override'].items()}
        self.to = {int(k): list(v) for k, v in pat['tgt_override'].items()}
        self.mcp = max_conn_parallel

        # allowed degrees: ('list', [..]) or ('min', m)
        self.src_deg = [self._deg(c, self.so.get(i), pat.get('max_src')) for i, c in enumerate(self.src)]
        self.tgt_deg = [self._deg(c, self.to.get(j), pat.get('max_tgt')) for j, c in enumerate(self.tgt)]
        self.src_eff = [self._effective(d) for d in self.src_deg]
        self.tgt_eff = [self._effective(d) for d in self.tgt_deg]

        # parallel-connection limit
        if max_conn_parallel is not None:
            par = max(1, int(max_conn_parallel))
        else:
            par = 2
            for d, eff in list(zip(self.src_deg, self.src_eff))+list(zip(self.tgt_deg, self.tgt_eff)):
                if eff and d[0] == 'list':
                    par = max(par, max(d[1]))
        self.parallel = par

        self.limit = [[self._pair_limit(i, j) for j in range(len(self.tgt))] for i in range(len(self.src))]

    @staticmethod
    def _deg(c, override, cap=None):
        if override is not None:
            return 'list', sorted(set(override))
        if c['conns'] is not None:
            return 'list', sorted(d for d in set(c['conns']) if cap is None or d <= cap)
        if cap is not None:
            return 'list', list(range(c['min'], cap+1))
        return 'min', c['min']

    @staticmethod
    def _effective(d):
        if d[0] == 'min':
            return True
        return len(d[1]) > 0 and d[1] != [0]

    def _pair_limit(self, i, j):
        if (i, j) in self.excluded or not self.src_eff[i] or not self.tgt_eff[j]:
            return 0
        if not self.src[i]['rep'] or not self.tgt[j]['rep']:
            return 1
        return self.parallel

    # --- as a predicate on concrete matrices
    @staticmethod
    def _deg_ok(d, n):
        return n in d[1] if d[0] == 'list' else n >= d[1]

    def holds(self, m):
        ns, nt = len(self.src), len(self.tgt)
        for i in range(ns):
            for j in range(nt):
                if m[i][j] < 0 or m[i][j] > self.limit[i][j]:
                    return False
        for i in range(ns):
            if not self._deg_ok(self.src_deg[i], sum(m[i][j] for j in range(nt))):
                return False
        for j in range(nt):
            if not self._deg_ok(self.tgt_deg[j], sum(m[i][j] for i in range(ns))):
                return False
        return True

    # --- as a z3 formula over a matrix of Int terms
    @staticmethod
    def _deg_z3(d, n):
        if d[0] == 'list':
            return z3.Or(*[n == k for k in d[1]]) if d[1] else z3.BoolVal(False)
        return n >= d[1]

    def formula(self, M):
        ns, nt = len(self.src), len(self.tgt)
        cs = []
        for i in range(ns):
            for j in range(nt):
                cs.append(M[i][j] >= 0)
                cs.append(M[i][j] <= self.limit[i][j])
        def sm(xs):  # (a unary `(+ x)` is valid for z3 but rejected by cvc5's parser)
            return z3.IntVal(0) if not xs else (xs[0] if len(xs) == 1 else z3.Sum(xs))
        for i in range(ns):
            cs.append(self._deg_z3(self.src_deg[i], sm([M[i][j] for j in range(nt)])))
        for j in range(nt):
            cs.append(self._deg_z3(self.tgt_deg[j], sm([M[i][j] for i in range(ns)])))
        return z3.And(*cs) if cs else z3.BoolVal(True)

    def brute_force(self, cap=4):
        """all matrices with entries <= min(limit, cap) that satisfy the spec (used by self-checks of the spec and to know
        whether a pattern admits a matrix); rows are filtered by their own degree constraint before they are combined"""
        import itertools
        ns, nt = len(self.src), len(self.tgt)
        if ns == 0 or nt == 0:
            m = [[] for _ in range(ns)]
            return [m] if self.holds(m) else []
        rows = []
        for i in range(ns):
            rngs = [range(min(self.limit[i][j], cap)+1) for j in range(nt)]
            rows.append([list(r) for r in itertools.product(*rngs) if self._deg_ok(self.src_deg[i], sum(r))])
        out = []
        for combo in itertools.product(*rows):
            m = [list(r) for r in combo]
            if self.holds(m):
                out.append(m)
        return out
