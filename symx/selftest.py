"""Self-tests of the engine: known-answer functions, exhaustiveness, vacuity, numpy carriers. Run: python -m symx.selftest"""
import z3
import numpy as np
from symx import *
from symx import core as _core
_core.MSG_ROOTS.append(__file__)


def _abs_clamp(x, lo, hi):
    if x < lo:
        return lo
    if x > hi:
        return hi
    return x


def t_clamp():
    x = sym_int('x')
    ex = explore(lambda: _abs_clamp(x, 0, 5))
    assert ex.complete and len(ex.paths) == 3, (ex.status, ex.paths)
    assert ex.exhaustive()
    s = z3.Solver()
    bad = z3.Or(*[z3.And(p.cond(), z3val(p.value) != z3.If(x.e < 0, 0, z3.If(x.e > 5, 5, x.e))) for p in ex.paths])
    s.add(bad)
    assert str(s.check()) == 'unsat'


def t_index_fanout():
    x = sym_int('x')
    arr = [10, 20, 30]

    def f():
        if x < 0 or x >= 3:
            return -1
        return arr[x]
    ex = explore(f)
    assert ex.complete, ex.status
    vals = sorted(p.value for p in ex.paths)
    assert vals == [-1, -1, 10, 20, 30], vals
    assert ex.exhaustive()


def t_fanout_cap():
    x = sym_int('x')
    ex = explore(lambda: [0]*1000 and hash(x), fanout_cap=5)
    assert not ex.complete and 'fan-out' in ex.status, ex.status


def t_numpy_obj():
    m = np.empty((2, 2), dtype=object)
    vs = [sym_int(f'm{i}') for i in range(4)]
    m[0, 0], m[0, 1], m[1, 0], m[1, 1] = vs
    mx = np.array([[1, 1], [2, 0]])

    def f():
        if np.any(m > mx):
            return False
        return np.sum(m[0, :]) == 1
    ex = explore(f, pre=[v.e >= 0 for v in vs])
    assert ex.complete, ex.status
    acc = z3.Or(*[z3.And(p.cond(), z3val(p.value)) for p in ex.paths if p.value is not False])
    ref = z3.And(vs[0].e <= 1, vs[1].e <= 1, vs[2].e <= 2, vs[3].e <= 0, vs[0].e+vs[1].e == 1)
    s = z3.Solver()
    s.add(*[v.e >= 0 for v in vs])
    s.add(acc != ref)
    assert str(s.check()) == 'unsat'


def t_sarr():
    a = SArr(np.array([[1, 0, 1], [0, 0, 1]]))
    i = sym_int('i')

    def f():
        try:
            return a[1, i]
        except IndexError:
            return 'oob'
    ex = explore(f)
    assert ex.complete
    kinds = sorted(str(p.value) for p in ex.paths)
    assert len(ex.paths) == 3, kinds  # in range (>=0), negative wrap, out of range
    s = z3.Solver()
    for p in ex.paths:
        if p.value != 'oob':
            s.push()
            s.add(p.cond(), i.e == 2, z3val(p.value) != 1)
            assert str(s.check()) == 'unsat'
            s.pop()


def t_exception_paths():
    x = sym_int('x')

    def f():
        if x > 3:
            raise ValueError('Value (%d) out of range' % x)
        return x+1
    ex = explore(f)
    assert ex.complete and len(ex.paths) == 2, (ex.status, ex.paths)
    assert sorted(p.kind for p in ex.paths) == ['exc', 'ret']
    assert ex.exhaustive()  # the formatting stub must not narrow the path condition


def t_real():
    v, lo, hi = sym_real('v'), sym_real('lo'), sym_real('hi')

    def f():
        r = _abs_clamp(v, lo, hi)
        return (r-lo)/(hi-lo)
    ex = explore(f, pre=[lo.e < hi.e])
    assert ex.complete and len(ex.paths) == 3
    s = z3.Solver()
    s.add(lo.e < hi.e)
    s.add(z3.Or(*[z3.And(p.cond(), z3.Or(z3val(p.value) < 0, z3val(p.value) > 1)) for p in ex.paths]))
    assert str(s.check()) == 'unsat'


def t_wrong_summary_rejected():
    x = sym_int('x')
    ex = explore(lambda: _abs_clamp(x, 0, 5))
    ex.paths.pop()
    assert not ex.exhaustive()


def t_floor_div():
    x = sym_int('x')
    for b in (3, -3):
        ex = explore(lambda: (x // b, x % b), pre=[x.e >= -10, x.e <= 10])
        p = ex.paths[0]
        for xv in range(-10, 11):
            s = z3.Solver()
            s.add(x.e == xv)
            assert str(s.check()) == 'sat'
            m = s.model()
            got = deep_eval(p.value, m)
            assert got == [xv // b, xv % b], (xv, b, got)


def t_inf():
    import math
    x = sym_real('x')
    assert (x < math.inf) is True and (x > math.inf) is False and (x >= -math.inf) is True
    assert (x == float('nan')) is False


def t_array_vs_scalar():
    # ndarray <op> symbolic scalar must be element-wise (never fall back to identity comparison)
    a, b = sym_int('a'), sym_int('b')
    arr = np.empty(2, dtype=object)
    arr[0], arr[1] = a, b

    def f():
        return bool(np.all(arr[1:] == arr[0])), (arr+a)[1], (a+arr)[1], (np.array([1, 2]) < a).tolist()
    ex = explore(f, pre=[a.e == 1])
    assert ex.complete
    for p in ex.paths:
        s = z3.Solver()
        s.add(a.e == 1, p.cond())
        assert str(s.check()) == 'sat'
        m = s.model()
        bv = m.eval(b.e, model_completion=True).as_long()
        allv, s1, s2, lt = p.value
        assert allv == (bv == 1), (allv, bv)
        assert deep_eval(s1, m) == bv+1 and deep_eval(s2, m) == bv+1
        assert lt == [False, False]


def t_sqrt_order():
    a, b = sym_int('a'), sym_int('b')
    arr = np.empty(2, dtype=object)
    arr[0], arr[1] = a*a+1, b*b

    def f():
        return int(np.argmin(np.sqrt(arr)))
    ex = explore(f, pre=[a.e >= 0, b.e >= 0, a.e <= 5, b.e <= 5])
    assert ex.complete and len(ex.paths) == 2, ex.status
    for p in ex.paths:
        s = z3.Solver()
        s.add(p.cond(), a.e >= 0, b.e >= 0)
        s.add(z3.Not((b.e*b.e < a.e*a.e+1) == z3.BoolVal(p.value == 1)))
        assert str(s.check()) == 'unsat'


def main():
    n = 0
    for name, f in sorted(globals().items()):
        if name.startswith('t_'):
            f()
            n += 1
    print(f'symx selftest: {n} tests ok')
    return 0


if __name__ == '__main__':
    raise SystemExit(main())
