"""
Configuration pools around the symbolic core of C09/C10/C07: connector alphabet, settings, existence patterns.
Everything here is plain data (dicts); `to_settings` builds the real MatrixGenSettings.
"""
import zlib
import random
import itertools
from spec.conn import conn, pattern

# 18 connector types: degree lists and open-ended minima, each with / without repeated connections
_DEGS = [('L', [1]), ('L', [2]), ('L', [0, 1]), ('L', [1, 2]), ('L', [0, 2]), ('L', [0, 1, 2]),
         ('M', 0), ('M', 1), ('M', 2)]
ALPHABET = [conn(conns=d, rep=r) if k == 'L' else conn(min_=d, rep=r) for k, d in _DEGS for r in (True, False)]
# 10-type sub-alphabet for the exhaustive 2x2 sweep
SUB_ALPHABET = [conn([1]), conn([0, 1]), conn([1, 2]), conn([0, 2]), conn(min_=0), conn(min_=1),
                conn([1], rep=False), conn([0, 1, 2], rep=False), conn(min_=0, rep=False), conn(min_=1, rep=False)]
EXTRA = [conn([3]), conn([0, 3]), conn([1, 3]), conn([0, 1, 2, 3]), conn(min_=2, rep=False), conn([2, 3], rep=False)]


def conn_str(c):
    s = ','.join(str(x) for x in c['conns']) if c['conns'] is not None else f'{c["min"]}..*'
    return s+('' if c['rep'] else '!')


def settings_label(s):
    lab = ' '.join(conn_str(c) for c in s['src'])+' -> '+' '.join(conn_str(c) for c in s['tgt'])
    if s.get('excluded'):
        lab += ' ex'+''.join(f'({i},{j})' for i, j in s['excluded'])
    if s.get('mcp') is not None:
        lab += f' mcp{s["mcp"]}'
    return lab


def pattern_label(p):
    f = lambda o: ';'.join(f'{k}:{",".join(map(str, v))}' for k, v in sorted(o.items()))  # noqa
    mx = ''
    if p.get('max_src') is not None:
        mx += f' ms{p["max_src"]}'
    if p.get('max_tgt') is not None:
        mx += f' mt{p["max_tgt"]}'
    if p.get('order'):
        mx += f' {p["order"]}'
    return f'[{f(p["src_override"])}|{f(p["tgt_override"])}{mx}]'


def mk(src, tgt, excluded=(), mcp=None, patterns=None, name=None, with_max=False):
    s = dict(src=list(src), tgt=list(tgt), excluded=[tuple(e) for e in excluded], mcp=mcp, name=name)
    s['patterns'] = patterns if patterns is not None else default_patterns(s, with_max=with_max)
    return s


def _sub_lists(c, n_max=5):
    """override lists as a grouping node could produce for this connector: a subset of plausible sums"""
    if c['conns'] is not None:
        base = c['conns']
    else:
        base = list(range(c['min'], c['min']+3))
    outs = []
    if len(base) >= 2:
        outs.append(base[:-1])
        outs.append(base[1:])
    outs.append([0, 2])  # lists with gaps (a grouping connector over members with non-contiguous degrees)
    outs.append([0, 1])
    outs.append([1, 3])
    outs.append([1])
    outs.append([0, 1, 2, 3])
    seen, res = set(), []
    for o in outs:
        t = tuple(o)
        if t not in seen and o != [0]:
            seen.add(t)
            res.append(list(o))
    return res[:n_max]


def default_patterns(s, rnd=None, n_override=3, with_max=False):
    ns, nt = len(s['src']), len(s['tgt'])
    pats = [pattern(ns, nt)]
    for i in range(ns):
        pats.append(pattern(ns, nt, src_absent=[i]))
    for j in range(nt):
        pats.append(pattern(ns, nt, tgt_absent=[j]))
    if ns > 1:
        pats.append(pattern(ns, nt, src_absent=list(range(ns))))
    if ns >= 1 and nt >= 1:
        pats.append(pattern(ns, nt, src_absent=[0], tgt_absent=[nt-1]))
    # explicit override lists (as grouping nodes produce), one per side and one on both
    rnd = rnd or random.Random(zlib.crc32(settings_label(s).encode()) & 0xffff)
    so = _sub_lists(s['src'][0])
    to = _sub_lists(s['tgt'][-1])
    for k_o, o in enumerate(so[:n_override]):
        pats.append(pattern(ns, nt, src_override={0: o}))
        if k_o == 1 and len(o) > 1:
            pats[-1]['order'] = 'desc'   # the list is handed to the library in descending order
    for k_o, o in enumerate(to[:n_override]):
        pats.append(pattern(ns, nt, tgt_override={nt-1: o}))
        if k_o != 1 and len(o) > 1:
            pats[-1]['order'] = 'desc' if k_o == 0 else 'mixed'
    if so and to:
        pats.append(pattern(ns, nt, src_override={0: rnd.choice(so)}, tgt_override={nt-1: rnd.choice(to)}))
        if ns > 1:
            pats.append(pattern(ns, nt, src_absent=[ns-1], src_override={0: rnd.choice(so)},
                                tgt_override={0: rnd.choice(to)}))
    # degree caps (NodeExistence.max_src_conn_override / max_tgt_conn_override)
    if with_max:
        pats.append(pattern(ns, nt, max_src=rnd.choice([1, 2])))
        pats.append(pattern(ns, nt, max_tgt=rnd.choice([1, 2, 3])))
        pats.append(pattern(ns, nt, max_src=2, max_tgt=rnd.choice([1, 2]), tgt_absent=[nt-1] if nt > 1 else []))
        if so:
            pats.append(pattern(ns, nt, src_override={0: rnd.choice(so)}, max_src=1, max_tgt=2))
    # de-duplicate
    seen, out = set(), []
    for p in pats:
        k = pattern_label(p)
        if k not in seen:
            seen.add(k)
            out.append(p)
    return out


def _ordered(v, order):
    """an override list as the caller may write it: ascending (default), descending, or largest first then ascending"""
    v = sorted(v)
    if order == 'desc':
        return v[::-1]
    if order == 'mixed' and len(v) > 1:
        return [v[-1]]+v[:-1]
    return v


def to_settings(s):
    """-> real MatrixGenSettings and the list of real NodeExistence objects (same order as s['patterns'])"""
    from adsg_core.optimization.assign_enc.matrix import Node, NodeExistence, NodeExistencePatterns, MatrixGenSettings
    mkn = lambda c: Node(list(c['conns']), repeated_allowed=c['rep']) if c['conns'] is not None else \
        Node(min_conn=c['min'], repeated_allowed=c['rep'])  # noqa
    src = [mkn(c) for c in s['src']]
    tgt = [mkn(c) for c in s['tgt']]
    excluded = [tuple(e) for e in s['excluded']] or None
    if s.get('nodes') == 'shared':
        # the way a model with symmetric connectors may be written: ONE Node object per distinct connector description,
        # used on both sides, and the excluded pairs given as (source object, target object)
        objs = {}
        key = lambda c: repr(sorted(c.items()))  # noqa
        src = [objs.setdefault(key(c), mkn(c)) for c in s['src']]
        tgt = [objs.setdefault(key(c), mkn(c)) for c in s['tgt']]
        if len(set(map(id, src))) == len(src) and len(set(map(id, tgt))) == len(tgt) and excluded:
            excluded = [(src[i], tgt[j]) for i, j in excluded]
    exist = []
    if s.get('construct') == 'alias':
        # the way a user of the API may write it: absent connectors through the exists masks, and ONE dict object per
        # distinct explicit override reused for every pattern that has it (the library must not write into it)
        shared = {}

        def split(ov, n):
            mask = [ov.get(i) != [0] for i in range(n)]
            rest = {k: _ordered(v, p_order[0]) for k, v in ov.items() if v != [0]}
            key = repr(sorted(rest.items()))
            if rest and key not in shared:
                shared[key] = rest
            return (mask if not all(mask) else None), (shared[key] if rest else None)
        p_order = [None]
        for p in s['patterns']:
            p_order[0] = p.get('order')
            sm, so = split(p['src_override'], len(src))
            tm, to = split(p['tgt_override'], len(tgt))
            exist.append(NodeExistence(src_exists=sm, tgt_exists=tm, src_n_conn_override=so, tgt_n_conn_override=to,
                                       max_src_conn_override=p.get('max_src'), max_tgt_conn_override=p.get('max_tgt')))
    else:
        for p in s['patterns']:
            exist.append(NodeExistence(src_n_conn_override={k: _ordered(v, p.get('order')) for k, v in p['src_override'].items()} or None,
                                       tgt_n_conn_override={k: _ordered(v, p.get('order')) for k, v in p['tgt_override'].items()} or None,
                                       max_src_conn_override=p.get('max_src'), max_tgt_conn_override=p.get('max_tgt')))
    settings = MatrixGenSettings(src=src, tgt=tgt, excluded=excluded,
                                 existence=NodeExistencePatterns(patterns=exist), max_conn_parallel=s.get('mcp'))
    return settings, exist


# the repo's own test inputs (adsg_core/tests/assign_enc/test_matrix.py, test_encoder.py) and the shapes that the
# property text names
def named_settings():
    c = conn
    out = [
        mk([c([1]), c([1])], [c([0, 1]), c([0, 1]), c([0, 1])], name='test_matrix:iter_permutations'),
        mk([c([1, 2], rep=False), c([1], rep=False)], [c([0, 1, 2]), c(min_=0)], name='test_matrix:mixed'),
        mk([c(min_=0), c(min_=0)], [c(min_=0), c(min_=0)], name='any-any 2x2'),
        mk([c(min_=1, rep=False), c(min_=1, rep=False)], [c(min_=1, rep=False), c(min_=1, rep=False)],
           name='covering 2x2'),
        mk([c([1]), c([1]), c([1])], [c([1]), c([1]), c([1])], name='permuting 3x3'),
        mk([c([1])], [c([0, 1]), c([0, 1]), c([0, 1])], name='combining 1x3'),
        mk([c([0, 1, 2, 3], rep=False)], [c([0, 1], rep=False), c([0, 1], rep=False), c([0, 1], rep=False)],
           name='down-selecting 1x3'),
        mk([c([2])], [c(min_=0), c(min_=0)], name='unordered combining w/ replacement'),
        mk([c([0, 2])], [c([1]), c([0, 1])], name='non-contiguous degree list'),
        mk([c(min_=0, rep=False), c(min_=0, rep=False)], [c([1]), c([0, 1])], name='mixed 1 / 0..1 targets'),
        mk([c([1])], [c([1])], name='exactly one matrix'),
        mk([c([2], rep=False)], [c([1])], name='zero matrices'),
        mk([c(min_=0), c(min_=0, rep=False)], [c([2]), c(min_=0, rep=False)], name='override probe (round 0)'),
        mk([c([1]), c(min_=1)], [c(min_=0), c(min_=0)], name='grouping-like src'),
        mk([c(min_=0), c(min_=0)], [c(min_=0), c(min_=0)], excluded=[(0, 0)], name='any-any excluded'),
        mk([c(min_=0), c(min_=0)], [c(min_=0), c(min_=0)], excluded=[(0, 0), (1, 1)], name='any-any diag excluded'),
        mk([c([1, 2]), c([0, 1])], [c(min_=1), c([0, 1, 2])], mcp=1, name='mcp=1'),
        mk([c([0, 1, 2]), c(min_=0)], [c(min_=0), c([0, 2])], mcp=0, name='mcp=0 (documented to mean 1)'),
        mk([c([2, 3]), c([0, 1])], [c(min_=1), c([0, 3])], mcp=3, name='mcp=3'),
        # complete degree lists that reach the other side's maximum are converted to open-ended minima per pattern:
        # the parallel limit has to stay the one derived from the lists (3 here), not the default for open-ended connectors
        mk([c([0, 1, 2, 3])], [c([0, 1, 2, 3])], name='complete lists 0..3 both sides 1x1'),
        mk([c([0, 1, 2, 3]), c([0, 1])], [c([1, 2, 3])], name='complete lists up to 3, 2x1'),
        mk([c([1, 2, 3]), c([0, 1], rep=False)], [c([0, 1, 2, 3]), c([0, 1, 2, 3, 4])], name='complete lists up to 3 and 4, 2x2'),
    ]
    return out


def random_settings(rnd, ns, nt, alphabet=None, p_excl=0.3, p_mcp=0.1, with_max=False):
    alphabet = alphabet or (ALPHABET+EXTRA[:3])
    src = [rnd.choice(alphabet) for _ in range(ns)]
    tgt = [rnd.choice(alphabet) for _ in range(nt)]
    excluded = []
    r = rnd.random()
    if r < p_excl:
        excluded = [(rnd.randrange(ns), rnd.randrange(nt))]
    elif r < p_excl+0.1 and ns > 1 and nt > 1:
        excluded = [(k, k) for k in range(min(ns, nt))]
    mcp = rnd.choice([1, 2, 3]) if rnd.random() < p_mcp else None
    return mk(src, tgt, excluded, mcp, with_max=with_max)


def exhaustive_2x2(alphabet=None):
    alphabet = alphabet or SUB_ALPHABET
    for a, b, c_, d in itertools.product(alphabet, repeat=4):
        yield mk([a, b], [c_, d])


def pool(tier, seed, with_named=True, with_max=False, wide=False):
    rnd = random.Random(1000+seed)
    out = named_settings() if with_named else []
    if tier == 'quick':
        shapes = [(1, 1, 12), (1, 2, 20), (2, 1, 20), (2, 2, 70), (2, 3, 25), (3, 2, 25), (3, 3, 12), (1, 3, 12)]
    else:
        shapes = [(1, 1, 40), (1, 2, 150), (2, 1, 150), (2, 2, 900), (2, 3, 300), (3, 2, 300), (3, 3, 120),
                  (1, 3, 100), (3, 1, 100)]
    for ns, nt, n in shapes:
        for k_ in range(n):
            out.append(random_settings(rnd, ns, nt, with_max=with_max and k_ % 3 == 0))
            if k_ % 5 == 2:
                out[-1]['construct'] = 'alias'
    if with_max:
        c = conn
        out.append(mk([c([1, 2, 3])], [c([0, 1]), c([0, 1]), c([0, 1])], name='degree cap on a list source', with_max=True))
        out.append(mk([c(min_=0), c([0, 1, 2])], [c(min_=1), c([1, 2, 3])], name='degree caps mixed', with_max=True))
    # the same override dict object shared by several patterns, absences through the exists masks
    c = conn
    for nm, sr, tg, pats in (
            ('alias 2x2', [c([1, 2]), c([0, 1])], [c(min_=0), c([0, 1, 2])],
             [pattern(2, 2), pattern(2, 2, src_override={0: [1, 2]}, src_absent=[1]), pattern(2, 2, src_override={0: [1, 2]}, tgt_absent=[1]),
              pattern(2, 2, src_override={0: [1, 2]})]),
            ('alias 2x3', [c(min_=0), c([1])], [c([0, 1]), c([0, 1]), c(min_=0, rep=False)],
             [pattern(2, 3, tgt_override={2: [0, 1]}, tgt_absent=[0]), pattern(2, 3, tgt_override={2: [0, 1]}),
              pattern(2, 3, tgt_override={2: [0, 1]}, src_absent=[0]), pattern(2, 3, tgt_absent=[1])])):
        a = mk(sr, tg, patterns=pats, name=nm)
        a['construct'] = 'alias'
        out.append(a)
    for nm, sr, tg, ex_ in (
            ('shared node objects 2x2', [c([0, 1, 2]), c(min_=0)], [c(min_=0), c([0, 1, 2])], [(0, 0)]),
            ('shared node objects 2x2 b', [c([1, 2], rep=False), c(min_=0)], [c(min_=0), c([1, 2], rep=False)], [(0, 1)]),
            ('shared node objects 2x3', [c([0, 1]), c(min_=1)], [c(min_=1), c([0, 1]), c([0, 2])], [(1, 1), (0, 2)])):
        a = mk(sr, tg, excluded=ex_, name=nm)
        a['nodes'] = 'shared'
        out.append(a)
    if wide:
        # four connectors on one side (C09 only): own generator, so that the instances above do not change
        rnd_w = random.Random(7000+seed)
        wshapes = [(1, 4, 3), (4, 1, 3), (2, 4, 4), (4, 2, 4)] if tier == 'quick' else [(1, 4, 40), (4, 1, 40), (2, 4, 60), (4, 2, 60)]
        for ns, nt, n in wshapes:
            for k_ in range(n):
                out.append(random_settings(rnd_w, ns, nt, with_max=with_max and k_ % 3 == 0))
    if tier == 'thorough':
        # bounded-exhaustive part: every assignment of the 10-type sub-alphabet to 2x2 connectors would be 10^4
        # settings x ~12 patterns; a seeded third of it keeps the thorough tier at minutes
        ex = list(exhaustive_2x2())
        rnd.shuffle(ex)
        out += ex[:3000]
    return out
