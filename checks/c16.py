"""
C16 - design-variable nodes receive in-range values (DESIGN.md section 4).

The real `DesignVariableNode.__init__/correct_value` and `DSG.set_des_var_value/des_var_value` are executed on symbolic
values: value in Z / R (unbounded), bounds in R^2 (lo < hi), option counts swept. Floating point: the same real code is
run on z3 FloatingPoint values (SFloat) at the stated width; counterexamples are replayed natively with NumPy scalars
of that width (np.float16 / np.float32 / float).
"""
import math
import itertools
import numpy as np
import z3
from checks.common import *
from symx import *

PROP = 'C16'
META = dict(
    level='model_checking',
    functions=['adsg_core.graph.adsg_nodes.DesignVariableNode.__init__', 'adsg_core.graph.adsg_nodes.DesignVariableNode.correct_value',
               'adsg_core.graph.adsg.DSG.set_des_var_value', 'adsg_core.graph.adsg.DSG.des_var_value',
               'adsg_core.graph.adsg.DSG.is_constrained_choice', 'adsg_core.graph.adsg.DSG.constrain_choices'],
    bounds=dict(value='any integer / any real (unbounded); IEEE: any finite value with |x| <= 2^20 (Float16: <= 1000)',
                bounds='any reals lo < hi', options='1..5', linked_group='<= 3 nodes',
                fp_widths='quick: Float16, Float32 (30 s per query); thorough adds Float64 (300 s per query)'),
    outside=['decode_dv: hand-written templates and 6 (quick) / 30 (thorough) seeded random graphs; per listed design one decode; per path one re-decode with other entries (instance independence)',
             'NaN as a value or bound (stored unchanged; not among the values the property quantifies over)',
             '"every existing node has a value and the vector reports it" on whole decoded graphs is decided on three '
             'hand-written templates only, with discrete entries bounded to [-3, n+3] (get_graph casts with int() before '
             'clamping) and continuous entries at five concrete probe values',
             'floating point beyond the stated magnitude bound (overflow of hi-lo to inf)'],
    stubs=['XDG_CACHE_HOME redirected'],
    assumptions=['value is not NaN', 'lo < hi (enforced by the constructor; the rejection itself is an obligation)',
                 'z3 is sound for LRA/NRA and QF_FP'],
    explanation='bounded symbolic execution; each instance is one harness around the real functions',
)
INSTANCE_CAP_S = 400


def instances(tier, seed):
    out = []
    for n in (1, 2, 3, 5):
        out.append(dict(label=f'cv_discrete_int n={n}', kind='cv_discrete', n=n, dom='int'))
        out.append(dict(label=f'cv_discrete_real n={n}', kind='cv_discrete', n=n, dom='real'))
    out.append(dict(label='cv_cont', kind='cv_cont'))
    out.append(dict(label='ctor_bounds', kind='ctor'))
    for n in (1, 3):
        out.append(dict(label=f'set_single_disc n={n}', kind='set_single', n=n))
    out.append(dict(label='set_single_cont', kind='set_single', n=None))
    out.append(dict(label='set_linked_cont k=2', kind='set_linked_cont', k=2, src=0))
    out.append(dict(label='set_linked_cont k=2 src=1', kind='set_linked_cont', k=2, src=1))
    out.append(dict(label='set_linked_cont k=3', kind='set_linked_cont', k=3, src=1))
    for n1, n2 in ((3, 3), (2, 4), (4, 2), (1, 3)):
        out.append(dict(label=f'set_linked_disc n={n1},{n2}', kind='set_linked_disc', ns=[n1, n2], src=0))
    out.append(dict(label='set_linked_disc n=3,2,3 src=2', kind='set_linked_disc', ns=[3, 2, 3], src=2))
    out.append(dict(label='set_linked_disc n=2,4,4 src=2', kind='set_linked_disc', ns=[2, 4, 4], src=2))
    out.append(dict(label='set_linked_disc n=4,2,4 src=0', kind='set_linked_disc', ns=[4, 2, 4], src=0))
    out.append(dict(label='set_linked_mixed', kind='set_linked_mixed'))
    out.append(dict(label='set_other_untouched', kind='set_other'))
    for name in ('dv', 'dv_single', 'dv_linked', 'dv_linked_late', 'dv_linked_interleaved', 'dv_or_existence', 'dv_or_direct', 'dv_same_name', 'dv_linked3_cond',
                 'conn_infeasible_dv', 'conn_cond_choice_dv'):
        out.append(dict(label=f'decode_dv {name}', kind='decode_dv', template=name))
    # seeded random graphs with design-variable nodes (pools/dsg_random.py), bounded so that the sweep stays small
    from pools import dsg as dsg_pool
    from adsg_core import DesignVariableNode
    want, s_ = (6, 1000*seed) if tier == 'quick' else (30, 1000*seed)
    found = 0
    while found < want and s_ < 1000*seed+400:
        try:
            gp_, _, info_ = dsg_pool.make_processor(f'rnd{s_}')
        except RuntimeError:
            s_ += 1
            continue
        dvs_ = gp_.des_vars
        n_sel = 1
        for d_ in dvs_:
            if not isinstance(d_.node, DesignVariableNode):
                n_sel *= d_.n_opts
        n_disc = len([d_ for d_ in dvs_ if isinstance(d_.node, DesignVariableNode) and d_.is_discrete])
        if info_['dv'] and n_sel <= 12 and n_disc <= 2:
            out.append(dict(label=f'decode_dv rnd{s_}', kind='decode_dv', template=f'rnd{s_}'))
            found += 1
        s_ += 1
    widths = [(16, 30), (32, 30), (64, 30)] if tier == 'quick' else [(16, 60), (32, 120), (64, 300)]
    for bits, to in widths:
        out.append(dict(label=f'fp_single bits={bits}', kind='fp_single', bits=bits, timeout=to))
        out.append(dict(label=f'fp_linked bits={bits}', kind='fp_linked', bits=bits, timeout=to))
    out.append(dict(label='fp_nan_free k=1 bits=16', kind='fp_nan', k=1, bits=16, timeout=60 if tier == 'quick' else 300))
    if tier == 'thorough':
        out.append(dict(label='fp_nan_free k=2 bits=16', kind='fp_nan', k=2, bits=16, timeout=600))
    if tier == 'thorough':
        out.append(dict(label='crosshair second opinion: correct_value', kind='crosshair', kernel='correct_value'))
    return out


def _mk_graph(dv_nodes, link=None):
    from adsg_core import BasicDSG, NamedNode, ChoiceConstraintType
    g = BasicDSG()
    root = NamedNode('R')
    g.add_edges([(root, dv) for dv in dv_nodes])
    g = g.set_start_nodes({root})
    if link:
        g = g.constrain_choices(ChoiceConstraintType.LINKED, [dv_nodes[i] for i in link])
    return g


def _clamp(v, lo, hi):
    return z3.If(v < lo, lo, z3.If(v > hi, hi, v))


class _H:
    """helper: prove per path"""

    def __init__(self, res, pre, timeout_ms=20000):
        self.res, self.pre, self.timeout_ms = res, list(pre), timeout_ms

    def prove(self, path, claim, what, soft=False):
        """pre and pc => claim. Returns None if proved, model if refuted, 'unknown' otherwise"""
        import time
        s = z3.Solver()
        s.set('timeout', self.timeout_ms)
        s.add(*self.pre)
        s.add(path.cond())
        s.add(z3.Not(claim))
        self.res['obligations'] += 1
        t = time.perf_counter()
        r = str(s.check())
        self.res['solver_queries'] += 1
        self.res['solver_s'] += time.perf_counter()-t
        if r == 'unsat':
            self.res['discharged'] += 1
            return None
        if r == 'sat':
            return s.model()
        self.res['notes'].append(f'{what}: solver {r}')
        if self.res['status'] == HOLDS and not soft:
            self.res['status'] = INCONCLUSIVE
        return 'unknown'

    def reachable(self, path):
        s = z3.Solver()
        s.set('timeout', self.timeout_ms)
        s.add(*self.pre)
        s.add(path.cond())
        return str(s.check()) == 'sat'


def _py(v):
    """model value -> python number"""
    import fractions
    if isinstance(v, fractions.Fraction):
        return float(v) if v.denominator != 1 else int(v)
    return v


_PROP_OVERRIDE = [None]


def _viol(res, check, sig, config, inputs, observed, expected):
    res['status'] = VIOLATION
    res['violations'].append(violation_record(_PROP_OVERRIDE[0] or PROP, check, sig, config, inputs, observed, expected,
                                              replay_args=dict(check=check, config=config, inputs=inputs)))


# ---------------------------------------------------------------------------------------------------------------------
# native replays (plain Python values through the real API)


def native_correct_value(options, bounds, value):
    from adsg_core import DesignVariableNode
    node = DesignVariableNode('A', bounds=bounds, options=options)
    return node.correct_value(value)


def native_set(specs, link, src, value, bits=None):
    """specs: list of ('d', n) | ('c', lo, hi). Returns list of stored values (None if unset)"""
    from adsg_core import DesignVariableNode
    cast = {None: lambda x: x, 64: float, 32: np.float32, 16: np.float16}[bits]
    nodes = []
    for i, sp in enumerate(specs):
        if sp[0] == 'd':
            nodes.append(DesignVariableNode(f'V{i}', options=list(range(sp[1]))))
        else:
            nodes.append(DesignVariableNode(f'V{i}', bounds=(cast(sp[1]), cast(sp[2]))))
    g = _mk_graph(nodes, link)
    g.set_des_var_value(nodes[src], cast(value) if specs[src][0] == 'c' else value)
    return [g.des_var_value(n) for n in nodes]


def _in_domain(spec, val):
    if val is None:
        return True
    if spec[0] == 'd':
        try:
            return float(val) == int(val) and 0 <= int(val) < spec[1] and not isinstance(val, bool)
        except Exception:  # noqa
            return False
    return spec[1] <= val <= spec[2]


def replay(rec):
    a = rec['replay_args']
    inp, cfg = a['inputs'], a['config']
    def num(x):
        if isinstance(x, dict) and 'fraction' in x:
            import fractions
            f = fractions.Fraction(*x['fraction'])
            return float(f) if f.denominator != 1 else int(f)
        if x == 'nan':
            return math.nan
        return x
    if a['check'] == 'correct_value':
        opts = list(range(cfg['n'])) if cfg.get('n') else None
        bounds = tuple(num(b) for b in inp['bounds']) if inp.get('bounds') else None
        val, frac = native_correct_value(opts, bounds, num(inp['value']))
        print(f'correct_value(options={opts}, bounds={bounds}, value={num(inp["value"])}) -> {val!r}, {frac!r}')
        spec = ('d', cfg['n']) if opts else ('c',)+bounds
        return not _in_domain(spec, val) or (opts is None and not (0 <= frac <= 1))
    if a['check'] == 'set_des_var_value':
        specs = [tuple(num(x) for x in sp) for sp in inp['specs']]
        stored = native_set(specs, cfg.get('link'), cfg['src'], num(inp['value']), bits=cfg.get('bits'))
        print(f'specs={specs} link={cfg.get("link")} set node {cfg["src"]} := {num(inp["value"])!r} -> stored {stored!r}')
        return any(not _in_domain(sp, v) for sp, v in zip(specs, stored))
    return False


# ---------------------------------------------------------------------------------------------------------------------


def run_instance(inst, tier='quick', seed=0):
    res = new_result(inst['label'])
    kind = inst['kind']
    with FuncTracer() as tr:
        globals()[f'_run_{kind}'](inst, res)
    res['functions'] = sorted(tr.names)
    return res


def _run_cv_discrete(inst, res):
    from adsg_core import DesignVariableNode
    n = inst['n']
    v = sym_int('v') if inst['dom'] == 'int' else sym_real('v')
    node = DesignVariableNode('A', options=list(range(n)))
    ex = explore(lambda: node.correct_value(v))
    absorb(res, ex)
    if not ex.complete:
        res['status'] = INCONCLUSIVE
        res['notes'].append(ex.status)
        return
    h = _H(res, [])
    require_exhaustive(res, ex)
    for p in ex.paths:
        if p.kind == 'exc':
            _viol(res, 'correct_value', dict(kind='raises', n=n, dom=inst['dom']), dict(n=n), dict(value=None), repr(p.exc), 'value')
            continue
        val, frac = p.value
        ve = z3val(val)
        if inst['dom'] == 'int':
            claim = z3.And(ve == _clamp(v.e, 0, n-1))
        else:
            vr = z3.ToReal(ve) if z3.is_int(ve) else ve
            claim = z3.And(z3.IsInt(vr), vr >= 0, vr <= n-1, z3.Implies(z3.And(z3.IsInt(v.e), v.e >= 0, v.e <= n-1), vr == v.e))
        m = h.prove(p, claim, 'discrete clamp')
        if m is not None and m != 'unknown':
            x = _py(model_int(m, v))
            got, _ = native_correct_value(list(range(n)), None, x)
            if not _in_domain(('d', n), got) or (inst['dom'] == 'int' and got != min(max(x, 0), n-1)):
                _viol(res, 'correct_value', dict(kind='discrete_not_an_index', n=n, dom=inst['dom']), dict(n=n),
                      dict(value=x), dict(stored=got), 'integer option index in 0..n-1 (clamped)')
            else:
                res['status'] = HARNESS_ERROR
                res['notes'].append(f'model {x} does not reproduce: native {got}')
        if not (frac == .5):
            res['status'] = HARNESS_ERROR
            res['notes'].append(f'bounds fraction of a discrete variable is {frac}')
        # concolic validation
        s = z3.Solver()
        s.add(p.cond())
        if str(s.check()) == 'sat':
            x = _py(model_int(s.model(), v))
            got, _ = native_correct_value(list(range(n)), None, x)
            want = deep_eval(val, s.model())
            if _py(want) != got:
                res['status'] = HARNESS_ERROR
                res['notes'].append(f'concolic mismatch: value {x}: path {want}, native {got}')
            res['validated'] += 1
    res['sample'] = dict(harness=inst['label'], paths=[dict(pc=str(p.pc), result=str(p.value)) for p in ex.paths][:6])


def _run_cv_cont(inst, res):
    from adsg_core import DesignVariableNode
    v, lo, hi = sym_real('v'), sym_real('lo'), sym_real('hi')
    pre = [lo.e < hi.e]

    def run():
        node = DesignVariableNode('A', bounds=(lo, hi))
        return node.correct_value(v)
    ex = explore(run, pre=pre)
    absorb(res, ex)
    if not ex.complete:
        res['status'] = INCONCLUSIVE
        res['notes'].append(ex.status)
        return
    h = _H(res, pre)
    require_exhaustive(res, ex)
    for p in ex.paths:
        if p.kind == 'exc':
            m = h.prove(p, z3.BoolVal(False), 'no exception')
            if m not in (None, 'unknown'):
                _viol(res, 'correct_value', dict(kind='raises_cont'), dict(n=None),
                      dict(value=_py(model_int(m, v)), bounds=[_py(model_int(m, lo)), _py(model_int(m, hi))]), repr(p.exc), 'value')
            continue
        val, frac = p.value
        claim = z3.And(z3val(val) == _clamp(v.e, lo.e, hi.e), z3val(frac) >= 0, z3val(frac) <= 1,
                       z3val(frac)*(hi.e-lo.e) == z3val(val)-lo.e)
        m = h.prove(p, claim, 'continuous clamp')
        if m not in (None, 'unknown'):
            x, l, u = (_py(model_int(m, t)) for t in (v, lo, hi))
            got, fr = native_correct_value(None, (l, u), x)
            if not (l <= got <= u) or not (0 <= fr <= 1) or got != min(max(x, l), u):
                _viol(res, 'correct_value', dict(kind='cont_clamp'), dict(n=None), dict(value=x, bounds=[l, u]),
                      dict(stored=got, fraction=fr), 'clamp(value), fraction in [0,1]')
            else:
                res['status'] = HARNESS_ERROR
                res['notes'].append('model does not reproduce')
        s = z3.Solver()
        s.add(*pre)
        s.add(p.cond())
        if str(s.check()) == 'sat':
            mm = s.model()
            x, l, u = (float(model_int(mm, t)) for t in (v, lo, hi))
            if l < u:
                got, fr = native_correct_value(None, (l, u), x)
                if got != min(max(x, l), u):
                    res['status'] = HARNESS_ERROR
                    res['notes'].append(f'concolic mismatch {x} {l} {u}: {got}')
                res['validated'] += 1
    # +-inf are clamped by comparisons only
    for x in (math.inf, -math.inf):
        got, fr = native_correct_value(None, (-1.5, 2.5), x)
        if got != (2.5 if x > 0 else -1.5) or not (0 <= fr <= 1):
            _viol(res, 'correct_value', dict(kind='cont_clamp_inf'), dict(n=None), dict(value=x, bounds=[-1.5, 2.5]),
                  dict(stored=got, fraction=fr), 'bound')
    res['sample'] = dict(harness='correct_value continuous', paths=[dict(pc=str(p.pc), result=str(p.value)) for p in ex.paths])


def _run_ctor(inst, res):
    from adsg_core import DesignVariableNode
    lo, hi = sym_real('lo'), sym_real('hi')
    ex = explore(lambda: DesignVariableNode('A', bounds=(lo, hi)) and True)
    absorb(res, ex)
    h = _H(res, [])
    for p in ex.paths:
        claim = (lo.e >= hi.e) if p.kind == 'exc' else (lo.e < hi.e)
        m = h.prove(p, claim, 'constructor rejects iff lo >= hi')
        if m not in (None, 'unknown'):
            l, u = _py(model_int(m, lo)), _py(model_int(m, hi))
            try:
                DesignVariableNode('A', bounds=(l, u))
                raised = False
            except ValueError:
                raised = True
            if raised != (l >= u):
                _viol(res, 'ctor', dict(kind='ctor_bounds'), {}, dict(bounds=[l, u]), dict(raised=raised), dict(raised=l >= u))
        res['validated'] += 1
    if len(ex.paths) != 2:
        res['status'] = HARNESS_ERROR
        res['notes'].append(f'constructor: {len(ex.paths)} paths')
    res['sample'] = dict(harness='DesignVariableNode(bounds=(lo,hi))', paths=[dict(pc=str(p.pc), outcome=p.kind) for p in ex.paths])


def _specs_sym(kinds):
    """kinds: list of ('d', n) | ('c',) -> nodes factory with symbolic bounds, pre, spec terms"""
    terms, pre = [], []
    for i, k in enumerate(kinds):
        if k[0] == 'd':
            terms.append(('d', k[1]))
        else:
            lo, hi = sym_real(f'lo{i}'), sym_real(f'hi{i}')
            pre.append(lo.e < hi.e)
            terms.append(('c', lo, hi))
    return terms, pre


def _mk_nodes(terms):
    from adsg_core import DesignVariableNode
    nodes = []
    for i, t in enumerate(terms):
        if t[0] == 'd':
            nodes.append(DesignVariableNode(f'V{i}', options=list(range(t[1]))))
        else:
            nodes.append(DesignVariableNode(f'V{i}', bounds=(t[1], t[2])))
    return nodes


def _dom_claim(t, val):
    if val is None:
        return z3.BoolVal(True)
    ve = z3val(val)
    if t[0] == 'd':
        vr = z3.ToReal(ve) if z3.is_int(ve) else ve
        return z3.And(z3.IsInt(vr), vr >= 0, vr <= t[1]-1)
    return z3.And(ve >= t[1].e, ve <= t[2].e)


def _concrete_specs(m, terms):
    out = []
    for t in terms:
        if t[0] == 'd':
            out.append(('d', t[1]))
        else:
            out.append(('c', float(model_int(m, t[1])), float(model_int(m, t[2]))))
    return out


def _same_value(a, b):
    if is_sym(a) or is_sym(b):
        return z3.is_true(z3.simplify(z3val(a) == z3val(b)))
    return a == b


def _native_linked_ok(specs, stored, src):
    """linked values: discrete = same index clamped into the own range; continuous = same relative position"""
    sp_s, v_s = specs[src], stored[src]
    for sp, v in zip(specs, stored):
        if v is None or sp is sp_s and v is v_s:
            continue
        if sp[0] == 'd' and sp_s[0] == 'd':
            if v != min(max(v_s, 0), sp[1]-1):
                return False
        if sp[0] == 'c' and sp_s[0] == 'c':
            lhs = (v-sp[1])*(sp_s[2]-sp_s[1])
            rhs = (v_s-sp_s[1])*(sp[2]-sp[1])
            if abs(lhs-rhs) > 1e-9*max(1., abs(lhs), abs(rhs)):
                return False
    return True


def _set_harness(res, kinds, link, src, vdom, extra_claim=None, label='', native_extra=None, prop=None):
    terms, pre = _specs_sym(kinds)
    v = sym_int('v') if vdom == 'int' else sym_real('v')
    v2 = sym_int('v2') if vdom == 'int' else sym_real('v2')

    def run():
        nodes = _mk_nodes(terms)
        g = _mk_graph(nodes, link)
        g.set_des_var_value(nodes[src], v)
        first = [g.des_var_value(n) for n in nodes]
        # a copy is an independent value: setting on the copy leaves the original as it was
        g2 = g.copy()
        g2.set_des_var_value(nodes[src], v2)
        after = [g.des_var_value(n) for n in nodes]
        untouched = len(after) == len(first) and all(
            (a is None and b is None) or (a is not None and b is not None and (a is b or _same_value(a, b))) for a, b in zip(first, after))
        g.set_des_var_value(nodes[src], v2)
        second = [g.des_var_value(n) for n in nodes]
        on_copy = [g2.des_var_value(n) for n in nodes]
        copy_ok = all((a is None and b is None) or (a is not None and b is not None and _same_value(a, b)) for a, b in zip(second, on_copy))
        return first, second, untouched, copy_ok
    ex = explore(run, pre=pre, max_paths=4000, unknown_as_feasible=True, query_timeout_ms=5000)
    absorb(res, ex)
    if not ex.complete:
        res['status'] = INCONCLUSIVE
        res['notes'].append(ex.status)
        return ex, terms, pre, v
    h = _H(res, pre)
    require_exhaustive(res, ex)
    t_src = terms[src]
    for p in ex.paths:
        if p.kind == 'exc':
            m = h.prove(p, z3.BoolVal(False), 'no exception')
            if m not in (None, 'unknown'):
                specs = _concrete_specs(m, terms)
                x = _py(model_int(m, v))
                try:
                    native_set(specs, link, src, x)
                    res['status'] = HARNESS_ERROR
                    res['notes'].append(f'exception path {p.exc!r} does not reproduce')
                except Exception as e:  # noqa
                    _viol(res, 'set_des_var_value', dict(kind='raises', harness=label), dict(link=link, src=src),
                          dict(specs=specs, value=x), f'{type(e).__name__}: {e}', 'value stored')
            continue
        if not p.value[2] or not p.value[3]:
            s_ = z3.Solver()
            s_.add(*pre)
            s_.add(p.cond())
            s_.check()
            m_ = s_.model()
            _viol(res, 'set_des_var_value', dict(kind='copy_not_independent', harness=label, original_changed=not p.value[2]),
                  dict(link=link, src=src), dict(specs=_concrete_specs(m_, terms), value=_py(model_int(m_, v)), value_on_copy=_py(model_int(m_, v2))),
                  dict(original_untouched=p.value[2], copy_has_new_value=p.value[3]), 'setting a value on a copy leaves the original unchanged')
        for which, (stored, vv) in enumerate(zip(p.value[:2], (v, v2))):
            claims = []
            for i, t in enumerate(terms):
                in_link = link is not None and i in link and src in link
                if i == src:
                    lo_, hi_ = (0, t[1]-1) if t[0] == 'd' else (t[1].e, t[2].e)
                    claims.append(z3val(stored[i]) == _clamp(vv.e, lo_, hi_) if vdom == 'int' or t[0] == 'c' else _dom_claim(t, stored[i]))
                    claims.append(_dom_claim(t, stored[i]))
                elif in_link:
                    if stored[i] is None:
                        claims.append(z3.BoolVal(False))
                        continue
                    claims.append(_dom_claim(t, stored[i]))
                    if t[0] == 'd' and t_src[0] == 'd':
                        # the same option index, clamped into the linked variable's own option range
                        claims.append(z3val(stored[i]) == _clamp(z3val(stored[src]), 0, t[1]-1))
                    if t[0] == 'c' and t_src[0] == 'c':
                        # same relative position: (w-dl)(u-l) == (v'-l)(du-dl)
                        claims.append((z3val(stored[i])-t[1].e)*(t_src[2].e-t_src[1].e) ==
                                      (z3val(stored[src])-t_src[1].e)*(t[2].e-t[1].e))
                else:
                    claims.append(z3.BoolVal(stored[i] is None))
            if extra_claim is not None:
                claims += extra_claim(terms, stored, src)
            m = h.prove(p, z3.And(*claims), f'stored values after set #{which+1}')
            if m not in (None, 'unknown'):
                specs = _concrete_specs(m, terms)
                x = _py(model_int(m, vv))
                stored_n = native_set(specs, link, src, x)
                bad = [i for i, (sp, sv) in enumerate(zip(specs, stored_n)) if not _in_domain(sp, sv)]
                unset = [i for i in (link or []) if src in (link or []) and stored_n[i] is None]
                if bad or unset:
                    _viol(res, 'set_des_var_value',
                          dict(kind='stored_outside_domain' if bad else 'linked_not_set', harness=label,
                               nodes=bad or unset),
                          dict(link=link, src=src), dict(specs=specs, value=x), dict(stored=stored_n),
                          'every stored value inside its own bounds / option range')
                else:
                    # relative-position or clamp claim failed but domains are fine: check natively with tolerance
                    ok = True
                    sp = specs[src]
                    want = min(max(x, 0 if sp[0] == 'd' else sp[1]), sp[1]-1 if sp[0] == 'd' else sp[2])
                    if stored_n[src] != want:
                        ok = False
                    if ok and native_extra is None:
                        native_extra = _native_linked_ok
                    if ok and native_extra is not None and not native_extra(specs, stored_n, src):
                        _viol(res, 'set_des_var_value', dict(kind='linked_values_differ', harness=label), dict(link=link, src=src),
                              dict(specs=specs, value=x), dict(stored=stored_n), 'linked variables carry the same index / relative position')
                    elif not ok:
                        _viol(res, 'set_des_var_value', dict(kind='not_clamp', harness=label), dict(link=link, src=src),
                              dict(specs=specs, value=x), dict(stored=stored_n), dict(source=want))
                    else:
                        res['status'] = HARNESS_ERROR
                        res['notes'].append(f'model does not reproduce natively: specs={specs} v={x} stored={stored_n}')
                break
        # concolic validation
        s = z3.Solver()
        s.add(*pre)
        s.add(p.cond())
        if str(s.check()) == 'sat':
            m = s.model()
            specs = _concrete_specs(m, terms)
            x = _py(model_int(m, v))
            try:
                nat = native_set(specs, link, src, x)
                sym = deep_eval(p.value[0], m)
                for a, b in zip(nat, sym):
                    if (a is None) != (b is None) or (a is not None and abs(float(a)-float(b)) > 1e-6*max(1., abs(float(b)))):
                        res['status'] = HARNESS_ERROR
                        res['notes'].append(f'concolic mismatch: specs={specs} v={x}: native {nat} vs path {sym}')
                        break
                res['validated'] += 1
            except Exception as e:  # noqa
                res['notes'].append(f'concolic run raised {e!r}')
    res['sample'] = dict(harness=label, kinds=[list(map(str, k)) for k in kinds], link=link, src=src, paths=len(ex.paths),
                         first_path=dict(pc=str(ex.paths[0].pc), stored=str(ex.paths[0].value)) if ex.paths else None)
    return ex, terms, pre, v


def _run_set_single(inst, res):
    n = inst['n']
    if n is None:
        _set_harness(res, [('c',)], None, 0, 'real', label=inst['label'])
    else:
        _set_harness(res, [('d', n)], None, 0, 'int', label=inst['label'])


def _run_set_linked_cont(inst, res):
    k = inst['k']
    _set_harness(res, [('c',)]*k, list(range(k)), inst['src'], 'real', label=inst['label'])


def _run_set_linked_disc(inst, res):
    ns = inst['ns']
    _set_harness(res, [('d', n) for n in ns], list(range(len(ns))), inst['src'], 'int', label=inst['label'])


def _run_set_other(inst, res):
    # an unlinked third node keeps no value; a linked pair next to it
    _set_harness(res, [('c',), ('d', 3), ('c',)], [0, 2], 0, 'real', label=inst['label'])


def _run_set_linked_mixed(inst, res):
    from adsg_core import DesignVariableNode
    v = sym_real('v')

    def run():
        nodes = [DesignVariableNode('A', bounds=(0., 1.)), DesignVariableNode('B', options=[1, 2, 3])]
        g = _mk_graph(nodes, [0, 1])
        g.set_des_var_value(nodes[0], v)
        return [g.des_var_value(n) for n in nodes]
    ex = explore(run)
    absorb(res, ex)
    res['obligations'] += 1
    if ex.complete and all(p.kind == 'exc' and isinstance(p.exc, ValueError) for p in ex.paths):
        res['discharged'] += 1
        res['validated'] += len(ex.paths)
    elif ex.complete:
        p = [p for p in ex.paths if p.kind != 'exc'][0]
        _viol(res, 'set_des_var_value', dict(kind='mixed_link_accepted'), dict(link=[0, 1], src=0),
              dict(specs=[('c', 0., 1.), ('d', 3)], value=0.5), str(p.value), 'ValueError')
    else:
        res['status'] = INCONCLUSIVE
        res['notes'].append(ex.status)
    res['sample'] = dict(harness='linked continuous+discrete', outcome=[p.kind for p in ex.paths])


def _run_decode_dv(inst, res):
    """GraphProcessor.get_graph on templates with design-variable nodes: the entries of the design vector that belong to
    discrete design-variable nodes are symbolic integers in [-3, n+3] (get_graph casts them with int() before clamping,
    so an unbounded value would be an endless case split - stated bound), continuous entries take concrete probe values
    (below, on, inside, on, above the bounds), selection-choice entries sweep all values. Per path: every design-variable
    node that exists in the decoded instance carries the clamped value and the corrected vector reports it; absent nodes
    are inactive at the canonical value; create=False reports the same vector and activeness."""
    from pools import dsg as dsg_pool
    from adsg_core import DesignVariableNode
    name = inst['template']
    gp0, g0, info0 = dsg_pool.make_processor(name)
    dvs = gp0.des_vars
    sel_idx = [i for i, d in enumerate(dvs) if not isinstance(d.node, DesignVariableNode)]
    disc_idx = [i for i, d in enumerate(dvs) if isinstance(d.node, DesignVariableNode) and d.is_discrete]
    cont_idx = [i for i, d in enumerate(dvs) if isinstance(d.node, DesignVariableNode) and not d.is_discrete]
    names = {i: f'x{i}' for i in disc_idx}
    pre = []
    for i in disc_idx:
        pre += [z3.Int(names[i]) >= -3, z3.Int(names[i]) <= dvs[i].n_opts+3]
    n_checked = 0
    # every listed design: the entries and activeness of design-variable-node variables are what decoding it reports
    x_all = gp0.get_all_discrete_x()
    if x_all is not None:
        for r_, a_ in zip(np.array(x_all[0]).tolist(), np.array(x_all[1]).tolist()):
            res['obligations'] += 1
            try:
                _, xi, ai = gp0.get_graph(list(r_))
            except Exception as e_:  # noqa
                _viol(res, 'decode_dv', dict(kind='decode_raises', template=name), dict(template=name), dict(row=r_, active=a_), repr(e_), 'instance')
                continue
            bad = [dvs[i].name for i in disc_idx+cont_idx if bool(ai[i]) != bool(a_[i]) or (dvs[i].is_discrete and xi[i] != r_[i])
                   or (not a_[i] and xi[i] != r_[i])]
            if bad:
                _viol(res, 'decode_dv', dict(kind='listed_vs_decoded_dv', template=name, what=bad[0]), dict(template=name), dict(row=r_, active=a_),
                      dict(decoded=[float(v) for v in xi], active=[bool(v) for v in ai]), 'the listed design reports the same design-variable entries and activeness')
            else:
                res['discharged'] += 1
    for sel_vals in itertools.product(*[range(dvs[i].n_opts) for i in sel_idx]):
        for probe in range(5):
            cont_vals = {}
            for i in cont_idx:
                lo, hi = dvs[i].bounds
                cont_vals[i] = [lo-1.5, lo, (lo+2*hi)/3, hi, hi+100.][probe]

            def run():
                gp, g, info = dsg_pool.make_processor(name)
                x = [0]*len(dvs)
                for i, v_ in zip(sel_idx, sel_vals):
                    x[i] = v_
                for i in cont_idx:
                    x[i] = cont_vals[i]
                for i in disc_idx:
                    x[i] = sym_int(names[i])
                inst_g, x_imp, act = gp.get_graph(list(x))
                _, x_imp2, act2 = gp.get_graph(list(x), create=False)
                # the same architecture decoded again with other design-variable entries: the instance returned first
                # keeps its values
                before = dict(inst_g.des_var_values)
                x_other = list(x_imp)
                for i in disc_idx:
                    x_other[i] = (int(x_imp[i])+1) % max(dvs[i].n_opts, 1)
                for i in cont_idx:
                    x_other[i] = dvs[i].bounds[0] if x_imp[i] != dvs[i].bounds[0] else dvs[i].bounds[1]
                gp.get_graph(x_other)
                untouched = dict(inst_g.des_var_values) == before
                nodes = set(inst_g.graph.nodes)
                out = []
                for i, d in enumerate(gp.des_vars):
                    if isinstance(d.node, DesignVariableNode):
                        out.append((i, d.node in nodes, inst_g.des_var_value(d.node), x_imp[i], bool(act[i])))
                # every design-variable node of the template (also linked followers, which have no entry of their own)
                allv = [(j, n_ in nodes, inst_g.des_var_value(n_)) for j, n_ in enumerate(info.get('dv', []))]
                return out, list(x_imp) == list(x_imp2) and list(act) == list(act2), allv, untouched
            ex = explore(run, pre=pre, max_paths=3000, time_cap_s=120, fanout_cap=40)
            absorb(res, ex)
            if not ex.complete:
                res['status'] = INCONCLUSIVE
                res['notes'].append(ex.status)
                return
            if not require_exhaustive(res, ex):
                return
            for p in ex.paths:
                res['obligations'] += 1
                s_ = z3.Solver()
                s_.add(*pre)
                s_.add(p.cond())
                s_.check()
                mdl = s_.model()
                xin = {i: mdl.eval(z3.Int(names[i]), model_completion=True).as_long() for i in disc_idx}
                xin.update(cont_vals)
                inputs = dict(selection=list(sel_vals), dv_entries={dvs[i].name: xin[i] for i in disc_idx+cont_idx})
                if p.kind == 'exc':
                    _viol(res, 'decode_dv', dict(kind='decode_raises', template=name), dict(template=name), inputs, repr(p.exc), 'instance')
                    continue
                out, same_nc, allv, untouched = p.value
                problems = []
                if not untouched:
                    problems.append('instance: the values stored on a returned instance changed when the architecture was decoded again with other entries')
                dv_nodes0 = info0.get('dv', [])
                specs = [('d', len(n_.options)) if n_.options is not None else ('c', float(n_.bounds[0]), float(n_.bounds[1])) for n_ in dv_nodes0]
                for j, exists, stored in allv:
                    if exists and stored is None:
                        problems.append(f'{dv_nodes0[j].name}: node exists but has no value on the instance')
                    elif exists and not _in_domain(specs[j], stored):
                        problems.append(f'{dv_nodes0[j].name}: stored value {stored} outside the domain')
                for grp in info0.get('linked', []):
                    idx = [dv_nodes0.index(n_) for n_ in grp]
                    present = [j for j in idx if allv[j][1] and allv[j][2] is not None]
                    if len(present) >= 2 and not _native_linked_ok([specs[j] for j in present], [allv[j][2] for j in present], 0):
                        problems.append(f'linked group {[dv_nodes0[j].name for j in present]}: values {[allv[j][2] for j in present]} are not the same index / relative position')
                if not same_nc:
                    problems.append('create=False reports another vector/activeness than create=True')
                for i, exists, stored, reported, active in out:
                    d = dvs[i]
                    if d.is_discrete:
                        want = min(max(xin[i], 0), d.n_opts-1)
                        canon = 0
                    else:
                        want = min(max(xin[i], d.bounds[0]), d.bounds[1])
                        canon = (d.bounds[0]+d.bounds[1])/2
                    if exists:
                        if stored is None:
                            problems.append(f'{d.name}: node exists but has no value on the instance')
                        elif stored != want or reported != want or not active:
                            problems.append(f'{d.name}: entry {xin[i]} -> stored {stored}, reported {reported}, active {active}; clamp is {want}')
                    else:
                        if active or reported != canon:
                            problems.append(f'{d.name}: node absent but active={active}, reported {reported} (canonical {canon})')
                if problems:
                    _viol(res, 'decode_dv', dict(kind='decoded_dv_value', template=name, what=problems[0].split(':')[0]), dict(template=name), inputs,
                          problems[:3], 'existing design-variable nodes carry the clamped value, which the corrected vector reports')
                else:
                    res['discharged'] += 1
                res['validated'] += 1
                n_checked += 1
    res['sample'] = dict(harness=inst['label'], variables=[d.name for d in dvs], paths_checked=n_checked)


# --- IEEE ------------------------------------------------------------------------------------------------------------


def _fp_pre(xs, bits):
    lim = 1000.0 if bits == 16 else float(2**20)
    out = []
    for x in xs:
        out += [z3.Not(z3.fpIsNaN(x.e)), z3.Not(z3.fpIsInf(x.e)), z3.fpLEQ(z3.fpAbs(x.e), z3.FPVal(lim, x.e.sort()))]
    return out


def _abstract_fp(exprs):
    a = FPAbstraction()
    return [a(e) for e in exprs]


def _fp_harness(inst, res, k, nan_lemma=False):
    """The real set_des_var_value on IEEE values of the stated width.
    Claim B (default): every stored value is NaN or inside its node's bounds. First tried with the stored arithmetic
    term abstracted to a fresh FP variable in path condition and claim (sound: if it holds for every d it holds for
    the term; after a clamp the path condition alone implies it, at any width); if that fails, the full query, whose
    models are replayed natively with NumPy scalars of that width.
    Claim A (nan_lemma): no stored value is NaN - needs bit-level reasoning about the arithmetic, reduced widths."""
    from adsg_core import DesignVariableNode
    bits, to = inst['bits'], inst['timeout']
    v = sym_float('v', bits)
    bnds = [(sym_float(f'lo{i}', bits), sym_float(f'hi{i}', bits)) for i in range(k)]
    pre = _fp_pre([v]+[b for pair in bnds for b in pair], bits)+[z3.fpLT(lo.e, hi.e) for lo, hi in bnds]
    link = list(range(k)) if k > 1 else None

    def run():
        nodes = [DesignVariableNode(f'V{i}', bounds=bnds[i]) for i in range(k)]
        g = _mk_graph(nodes, link)
        g.set_des_var_value(nodes[0], v)
        return [g.des_var_value(n) for n in nodes]
    ex = explore(run, pre=pre, query_timeout_ms=4000, time_cap_s=INSTANCE_CAP_S, abstract_fp=True)
    absorb(res, ex)
    if not ex.complete:
        res['status'] = INCONCLUSIVE
        res['notes'].append(ex.status)
        return
    h = _H(res, pre, timeout_ms=to*1000)
    for p in ex.paths:
        if p.kind == 'exc':
            # e.g. ZeroDivisionError on hi-lo == 0: a side whose feasibility the solver could not decide in the
            # branch budget; hi > lo implies hi-lo != 0 in IEEE arithmetic with subnormals - try to show that
            # (at Float64 this lemma is load-sensitive; an undecided lemma is reported as not covered, it does not
            # make the in-bounds claim of the other paths inconclusive)
            m = h.prove(p, z3.BoolVal(False), f'IEEE Float{bits}: exception path {type(p.exc).__name__} infeasible', soft=bits == 64)
            if m == 'unknown':
                res['notes'].append(f'Float{bits}: infeasibility of the {type(p.exc).__name__} path not decided in {to}s (not covered)')
            elif m is not None:
                x = fp_model_value(m, v.e)
                specs = [('c', fp_model_value(m, l.e), fp_model_value(m, u.e)) for l, u in bnds]
                try:
                    native_set(specs, link, 0, x, bits=bits)
                    res['status'] = HARNESS_ERROR
                    res['notes'].append(f'exception path does not reproduce natively: {specs} {x}')
                except Exception as e:  # noqa
                    _viol(res, 'set_des_var_value', dict(kind='raises', harness=f'fp k={k}', bits=bits),
                          dict(link=link, src=0, bits=bits), dict(specs=specs, value=x), f'{type(e).__name__}: {e}', 'value stored')
            continue
        for i, stored in enumerate(p.value):
            lo, hi = bnds[i]
            if not isinstance(stored, SFloat):
                continue
            if nan_lemma:
                m = h.prove(p, z3.Not(z3.fpIsNaN(stored.e)), f'IEEE Float{bits}: node {i} not NaN')
                if m not in (None, 'unknown'):
                    x = fp_model_value(m, v.e)
                    specs = [('c', fp_model_value(m, l.e), fp_model_value(m, u.e)) for l, u in bnds]
                    stored_n = native_set(specs, link, 0, x, bits=bits)
                    if any(sv != sv for sv in stored_n):
                        _viol(res, 'set_des_var_value', dict(kind='stored_nan', harness=f'fp k={k}', bits=bits),
                              dict(link=link, src=0, bits=bits), dict(specs=specs, value=x), dict(stored=[float(s_) for s_ in stored_n]),
                              'no NaN stored for finite inputs')
                    else:
                        res['status'] = HARNESS_ERROR
                        res['notes'].append(f'NaN model does not reproduce natively: {specs} {x} -> {stored_n}')
                    return
                continue
            claim = z3.Or(z3.fpIsNaN(stored.e), z3.And(z3.fpLEQ(lo.e, stored.e), z3.fpLEQ(stored.e, hi.e)))
            # abstraction step: every arithmetic FP subterm -> fresh variable (consistently), comparisons kept
            pc_abs, claim_abs = _abstract_fp([p.cond(), claim])
            sa = z3.Solver()
            sa.set('timeout', 10000)
            sa.add(*pre)
            sa.add(pc_abs, z3.Not(claim_abs))
            res['obligations'] += 1
            res['solver_queries'] += 1
            if str(sa.check()) == 'unsat':
                res['discharged'] += 1
                continue
            res['obligations'] -= 1
            m = h.prove(p, claim, f'IEEE Float{bits}: node {i} in bounds')
            if m == 'unknown':
                continue
            if m is not None:
                x = fp_model_value(m, v.e)
                specs = [('c', fp_model_value(m, l.e), fp_model_value(m, u.e)) for l, u in bnds]
                stored_n = native_set(specs, link, 0, x, bits=bits)
                bad = [j for j, (sp, sv) in enumerate(zip(specs, stored_n)) if not (sp[1] <= sv <= sp[2])]
                if bad:
                    _viol(res, 'set_des_var_value', dict(kind='stored_outside_domain', harness=f'fp k={k}', nodes=bad, bits=bits),
                          dict(link=link, src=0, bits=bits), dict(specs=specs, value=x), dict(stored=[float(s_) for s_ in stored_n]),
                          'every stored value inside its own bounds')
                else:
                    res['status'] = HARNESS_ERROR
                    res['notes'].append(f'FP model does not reproduce natively: {specs} {x} -> {stored_n}')
                return
        res['validated'] += 1
    res['sample'] = dict(harness=inst['label'], paths=len(ex.paths), widths=bits,
                         first_path=str(ex.paths[0].pc) if ex.paths else None)


def _run_fp_single(inst, res):
    _fp_harness(inst, res, 1)


def _run_fp_linked(inst, res):
    _fp_harness(inst, res, 2)


def _run_fp_nan(inst, res):
    _fp_harness(inst, res, inst['k'], nan_lemma=True)


def _run_crosshair(inst, res):
    """second opinion only (DESIGN.md 1.2): a CrossHair counterexample where the main engine proved the claim makes this
    instance inconclusive; 'Not confirmed' is reported as not covered"""
    from checks import crosshair_opinion
    out = crosshair_opinion.run(inst['kernel'], per_condition_timeout=30)
    res['crosshair'] = out
    res['paths'] = len(out)
    res['obligations'] += len(out)
    res['discharged'] += len([o for o in out if o['verdict'] == 'confirmed'])
    for o in out:
        if o['verdict'] in ('counterexample', 'error'):
            res['status'] = INCONCLUSIVE
            res['notes'].append(f"CrossHair {o['function']}: {o['verdict']}: {o['detail']}")
        elif o['verdict'] != 'confirmed':
            res['notes'].append(f"CrossHair {o['function']}: not covered ({o['detail']})")
    res['sample'] = dict(harness=inst['label'], crosshair=out)
