"""
C17 - metrics are classified and evaluated by the documented contract (DESIGN.md section 4).

Classification: one metric node per configuration (placement x dir given x ref given x declared type); `dir` is a
symbolic integer, `ref` a symbolic real. The real GraphProcessor._get_metrics / _categorize_metrics /
Objective.from_metric_node / Constraint.from_metric_node run on it.
Evaluation: real DSGEvaluator.evaluate on both architectures of a small graph with an `_evaluate` stub that returns
symbolic reals for a swept subset of the present metric nodes, NaN for some, nothing for others.
"""
import math
import itertools
import z3
from checks.common import *
from symx import *

PROP = 'C17'
META = dict(
    level='other',
    functions=['adsg_core.optimization.graph_processor.GraphProcessor._get_metrics',
               'adsg_core.optimization.graph_processor.GraphProcessor._can_be_objective',
               'adsg_core.optimization.graph_processor.GraphProcessor._can_be_constraint',
               'adsg_core.optimization.graph_processor.GraphProcessor._categorize_metrics',
               'adsg_core.optimization.dv_output_defs.Objective.from_metric_node',
               'adsg_core.optimization.dv_output_defs.Constraint.from_metric_node',
               'adsg_core.optimization.evaluator.DSGEvaluator.evaluate'],
    bounds=dict(direction='any integer', reference='any real', evaluator_values='any real / NaN / missing / given although the node is absent',
                placements='metric under a permanent node, under one option of a selection choice, under a nested option, under a node '
                           'derived both without a choice and from an option',
                graphs='one metric node; pairs (every configuration next to six representative neighbours; all 40x40 in the thorough tier) '
                       'and triples of metric nodes; seeded random graphs with up to three metric nodes (60 quick / 600 thorough per run); '
                       'three metric nodes, two architectures (evaluation)',
                histories='two evaluations with one evaluator (four architecture orders x 54 behaviour pairs); values already stored on '
                          'the design space graph; processors on the whole and on a sub design space sharing the node objects, both orders; '
                          'every valid design of a random graph evaluated in listing order by one evaluator (<= 12 designs)'),
    outside=['graphs other than the templates and the seeded random graphs (placement is a graph-structure quantifier)',
             'for a metric that exists in every architecture only through choices both readings (objective possible / not) are accepted: '
             'the property makes existence a necessary condition only'],
    stubs=['_evaluate is the stub the API asks the user to provide', 'XDG_CACHE_HOME redirected'],
    assumptions=['z3 sound for LIA/LRA'],
    explanation='symbolic execution (symx + z3) of the metric typing and evaluation code; the symbolic content is thin '
                '(one sign test, pass-through of reals), the rest is a sweep of 40 placement/declaration configurations and '
                '2 architectures x 64 evaluator behaviours, pairs/triples of nodes, random graphs and the histories listed under bounds; every path is one solver obligation',
)
TYPES = [None, 'NONE', 'OBJECTIVE', 'CONSTRAINT', 'OBJ_OR_CON']


def instances(tier, seed):
    out = []
    for perm, has_dir, has_ref, ty in itertools.product((True, False, 'nested', 'shared'), (True, False), (True, False), TYPES):
        out.append(dict(label=f'classify perm={perm} dir={has_dir} ref={has_ref} type={ty}', kind='classify',
                        perm=perm, has_dir=has_dir, has_ref=has_ref, type=ty))
    for arch in (0, 1):
        out.append(dict(label=f'evaluate arch={arch}', kind='evaluate', arch=arch))
        out.append(dict(label=f'evaluate arch={arch} values already stored on the design space graph', kind='evaluate',
                        arch=arch, prestore=True))
    for a1, a2 in itertools.product((0, 1), repeat=2):
        out.append(dict(label=f'evaluate_twice arch {a1} then {a2} (one evaluator)', kind='evaluate_seq', archs=[a1, a2]))
    out.append(dict(label='order_stable', kind='order'))
    for has_dir, has_ref, ty in itertools.product((True, False), (True, False), TYPES):
        for order in (['full', 'sub'], ['sub', 'full']):
            out.append(dict(label=f'classify_twice dir={has_dir} ref={has_ref} type={ty} {"->".join(order)}', kind='classify_twice',
                            has_dir=has_dir, has_ref=has_ref, type=ty, order=order))
    # several metric nodes at once: every configuration (first by name) next to representative second nodes, and back
    cfgs = [dict(perm=pm, has_dir=hd, has_ref=hr, type=ty)
            for pm, hd, hr, ty in itertools.product((True, False), (True, False), (True, False), TYPES)]
    reps = [dict(perm=True, has_dir=True, has_ref=True, type=None),     # ambiguous, undeclared: must be rejected
            dict(perm=True, has_dir=True, has_ref=True, type='OBJECTIVE'),
            dict(perm=True, has_dir=True, has_ref=True, type='CONSTRAINT'),
            dict(perm=True, has_dir=True, has_ref=False, type=None),    # objective only
            dict(perm=False, has_dir=True, has_ref=True, type=None),    # constraint only
            dict(perm=True, has_dir=True, has_ref=True, type='NONE')]
    pairs = []
    if tier == 'thorough':
        pairs = [(a, b) for a in cfgs for b in cfgs]
    else:
        for a in cfgs:
            for b in reps:
                pairs.append((a, b))
        for a in reps:
            for b in cfgs:
                if (a, b) not in pairs:
                    pairs.append((a, b))
    def lab(c):
        return f"{'perm' if c['perm'] else 'cond'}/{'dir' if c['has_dir'] else '-'}/{'ref' if c['has_ref'] else '-'}/{c['type']}"
    for a, b in pairs:
        out.append(dict(label=f'classify_pair M1={lab(a)} M2={lab(b)}', kind='classify_multi', nodes=[a, b]))
    for s_ in range(1000*seed, 1000*seed+(60 if tier == "quick" else 600)):
        out.append(dict(label=f'classify_rnd rnd{s_}', kind='classify_rnd', template=f'rnd{s_}'))
        out.append(dict(label=f'evaluate_rnd rnd{s_}', kind='evaluate_rnd', template=f'rnd{s_}'))
    # metric nodes of different elements that carry the same name (and index)
    cA = dict(perm='A', has_dir=True, has_ref=True, type=None)
    for other in (dict(perm=False, has_dir=True, has_ref=True, type=None), dict(perm=False, has_dir=True, has_ref=False, type=None),
                  dict(perm=True, has_dir=True, has_ref=False, type=None), dict(perm=True, has_dir=True, has_ref=True, type='CONSTRAINT')):
        out.append(dict(label=f'classify_same_name A/{lab(other)}', kind='classify_multi', nodes=[cA, other], graph=['P', 'P']))
    out.append(dict(label='classify_same_name three', kind='classify_multi', nodes=[cA, dict(perm=False, has_dir=True, has_ref=True, type=None), reps[3]],
                    graph=['P', 'P', 'P']))
    trip = [reps[1], reps[0], reps[4]], [reps[5], reps[3], reps[0]], [reps[2], reps[4], reps[3]], [reps[3], reps[2], reps[1]]
    for t in trip:
        out.append(dict(label='classify_triple '+' '.join(lab(c) for c in t), kind='classify_multi', nodes=list(t)))
    return out


def _mtype(name):
    from adsg_core import MetricType
    return None if name is None else MetricType[name]


def _mk_classify_graph(perm, d, r, ty):
    """perm: True = under the start node; False = under option B of a choice; 'nested' = under a node X that option A
    derives directly and option B only through one option of a nested choice (X is missing from architecture B/Y)"""
    from adsg_core import BasicDSG, NamedNode, MetricNode
    g = BasicDSG()
    root, a, b = NamedNode('R'), NamedNode('A'), NamedNode('B')
    m = MetricNode('M', direction=d, ref=r, type_=_mtype(ty))
    g.add_selection_choice('C', root, [a, b])
    if perm == 'nested':
        x, y = NamedNode('X'), NamedNode('Y')
        g.add_edges([(a, x), (x, m)])
        g.add_selection_choice('C1', b, [x, y])
    elif perm == 'shared':
        # under a node that the start node derives directly AND option B derives as well: permanent
        x = NamedNode('X')
        g.add_edges([(root, x), (b, x), (x, m)])
    else:
        g.add_edges([(root if perm else b, m)])
    g = g.set_start_nodes({root})
    return g, m


def _viol(res, check, sig, config, inputs, observed, expected):
    res['status'] = VIOLATION
    res['violations'].append(violation_record(PROP, check, sig, config, inputs, observed, expected,
                                              replay_args=dict(check=check, config=config, inputs=inputs)))


def _classify_native(perm, d, r, ty):
    from adsg_core import DSGEvaluator
    g, m = _mk_classify_graph(perm, d, r, ty)
    ev = DSGEvaluator(g)
    try:
        objs, cons = ev.objectives, ev.constraints
    except RuntimeError as e:
        return 'error', str(e)
    return [(o.name, o.sign) for o in objs], [(c.name, c.sign, c.ref) for c in cons]


def _expected(perm, has_dir, has_ref, ty):
    """documented contract -> 'obj' | 'con' | 'none' | 'error'"""
    if ty == 'NONE':
        return 'none'
    can_obj = has_dir and perm in (True, 'shared')  # (perm == 'A': under option A, conditional)
    can_con = has_dir and has_ref
    if can_obj and can_con:
        if ty == 'OBJECTIVE':
            return 'obj'
        if ty == 'CONSTRAINT':
            return 'con'
        return 'error'
    if can_obj:
        return 'obj'
    if can_con:
        return 'con'
    return 'none'


def run_instance(inst, tier='quick', seed=0):
    res = new_result(inst['label'])
    with FuncTracer() as tr:
        globals()[f'_run_{inst["kind"]}'](inst, res)
    res['functions'] = sorted(tr.names)
    return res


def _run_classify(inst, res):
    from adsg_core import DSGEvaluator
    perm, has_dir, has_ref, ty = inst['perm'], inst['has_dir'], inst['has_ref'], inst['type']
    d = sym_int('dir') if has_dir else None
    r = sym_real('ref') if has_ref else None

    def run():
        g, m = _mk_classify_graph(perm, d, r, ty)
        ev = DSGEvaluator(g)
        try:
            objs, cons = ev.objectives, ev.constraints
        except RuntimeError:
            return 'error', None, None
        return 'ok', [(o.node is m, o.sign) for o in objs], [(c.node is m, c.sign, c.ref) for c in cons]
    ex = explore(run)
    absorb(res, ex)
    if not ex.complete:
        res['status'] = INCONCLUSIVE
        res['notes'].append(ex.status)
        return
    require_exhaustive(res, ex)
    want = _expected(perm, has_dir, has_ref, ty)
    for p in ex.paths:
        res['obligations'] += 1
        s = z3.Solver()
        s.add(p.cond())
        assert str(s.check()) == 'sat'
        mdl = s.model()
        dv = model_int(mdl, d) if has_dir else None
        rv = model_int(mdl, r) if has_ref else None
        cfg = dict(perm=perm, has_dir=has_dir, has_ref=has_ref, type=ty)
        if p.kind == 'exc':
            _viol(res, 'classify', dict(kind='raises', **cfg), cfg, dict(dir=dv, ref=rv), repr(p.exc), want)
            continue
        status, objs, cons = p.value
        got = 'error' if status == 'error' else ('obj' if objs else ('con' if cons else 'none'))
        bad = None
        if got != want:
            bad = f'role {got}, contract says {want}'
        elif status == 'ok' and (len(objs)+len(cons) > 1 or (objs and cons)):
            bad = 'used twice'
        elif got == 'obj':
            # sign = -1 iff dir <= 0, for every direction on this path
            sign = objs[0][1]
            s2 = z3.Solver()
            s2.add(p.cond(), z3.Not((d.e <= 0) == z3.BoolVal(sign == -1)))
            if str(s2.check()) != 'unsat' or sign not in (-1, 1) or not objs[0][0]:
                bad = f'objective sign {sign} does not follow the direction'
        elif got == 'con':
            node_ok, sign, ref = cons[0]
            s2 = z3.Solver()
            s2.add(p.cond(), z3.Not(z3.And((d.e <= 0) == z3.BoolVal(sign == -1), z3val(ref) == r.e)))
            if str(s2.check()) != 'unsat' or not node_ok:
                bad = f'constraint sign {sign} / reference {ref} do not follow the node'
        if bad:
            nat = _classify_native(perm, dv, float(rv) if rv is not None else None, ty)
            _viol(res, 'classify', dict(kind='contract', **cfg), cfg, dict(dir=dv, ref=rv), dict(symbolic=bad, native=nat), want)
        else:
            res['discharged'] += 1
        # concolic validation
        nat = _classify_native(perm, dv, float(rv) if rv is not None else None, ty)
        nat_role = 'error' if nat[0] == 'error' else ('obj' if nat[0] else ('con' if nat[1] else 'none'))
        if nat_role != got:
            res['status'] = HARNESS_ERROR
            res['notes'].append(f'concolic mismatch: dir={dv} ref={rv}: path {got}, native {nat_role}')
        res['validated'] += 1
    res['sample'] = dict(harness=inst['label'], expected_role=want, paths=[dict(pc=str(p.pc), outcome=str(p.value)[:200]) for p in ex.paths])


def _mk_multi_graph(nodes, ds, rs, names=None):
    """R -c-> [A, B]; metric i ('M1', 'M2', ... or the given names) under R (perm) or under option B (or A: perm == 'A')"""
    from adsg_core import BasicDSG, NamedNode, MetricNode
    g = BasicDSG()
    root, a, b = NamedNode('R'), NamedNode('A'), NamedNode('B')
    g.add_selection_choice('C', root, [a, b])
    ms = []
    # inserted in reverse order: the listing order must not depend on it
    for i in reversed(range(len(nodes))):
        m = MetricNode(names[i] if names else f'M{i+1}', direction=ds[i], ref=rs[i], type_=_mtype(nodes[i]['type']))
        g.add_edges([(a if nodes[i]['perm'] == 'A' else (root if nodes[i]['perm'] else b), m)])
        ms.insert(0, m)
    g = g.set_start_nodes({root})
    return g, ms


def _mk_rnd_graph(name, ds, rs):
    """seeded random graph (pools/dsg_random.py) with the drawn directions / references replaced by ds / rs"""
    from pools import dsg_random
    g, info = dsg_random.random_template(int(name[3:]), metric_hook=lambda k, d, r: (ds[k], rs[k]))
    return g, info['metrics']


def _rnd_nodes(name):
    """per metric node of the random graph: the configuration the single-node contract speaks about. "Exists in every
    architecture" is decided by listing and materialising every valid design (not by the permanence analysis the
    classification itself uses)."""
    from pools import dsg_random
    from adsg_core import GraphProcessor
    g, info = dsg_random.random_template(int(name[3:]))
    gp = GraphProcessor(g)
    x_all, _ = gp.get_all_discrete_x()
    archs = [gp.get_graph(list(x))[0] for x in x_all]
    # derivable from the start node over derivation edges without passing a choice node (own traversal)
    from adsg_core.graph.graph_edges import EdgeType
    from adsg_core.graph.adsg_nodes import ChoiceNode
    nxg = g.graph
    start = [n for n in nxg.nodes if str(n) == '[R]' or getattr(n, 'name', None) == 'R'][:1]
    always, todo = set(start), list(start)
    while todo:
        n = todo.pop()
        if isinstance(n, ChoiceNode):
            continue
        for _, tgt, data in nxg.out_edges(n, data=True):
            if data.get('type') == EdgeType.DERIVES and tgt not in always:
                always.add(tgt)
                todo.append(tgt)
    nodes = []
    for m in info['metrics']:
        in_all = all(m in a.graph.nodes for a in archs)
        # 'maybe': in every architecture, but only through choices (e.g. derived from every option of a choice). The
        # property makes "exists in every architecture" a necessary condition for an objective, not a sufficient one;
        # the library takes the initially confirmed nodes. Both readings are accepted for such a node.
        perm = True if (m in always and in_all) else ('maybe' if in_all else False)
        if m in always and not in_all:
            raise RuntimeError(f'{name}: {m} is derived without any choice but missing from an architecture')
        nodes.append(dict(perm=perm, has_dir=m.dir is not None, has_ref=m.ref is not None,
                          type=None if m.type is None else m.type.name))
    return nodes, [[m in a.graph.nodes for m in info['metrics']] for a in archs], [list(map(float, x)) for x in x_all]


def _multi_outcome(nodes, ds, rs, graph=None):
    from adsg_core import DSGEvaluator
    if isinstance(graph, list):   # explicit names (several metric nodes may share a name)
        g, ms = _mk_multi_graph(nodes, ds, rs, names=graph)
    else:
        g, ms = _mk_multi_graph(nodes, ds, rs) if graph is None else _mk_rnd_graph(graph, ds, rs)
    ev = DSGEvaluator(g)
    try:
        objs, cons = ev.objectives, ev.constraints
    except RuntimeError:
        return 'error', None, None
    idx = {id(m): i for i, m in enumerate(ms)}
    return 'ok', [(idx.get(id(o.node), -1), o.sign) for o in objs], [(idx.get(id(c.node), -1), c.sign, c.ref) for c in cons]


def _multi_expected(nodes, reading=None):
    """reading: for nodes with perm == 'maybe', the list of booleans to read them as (default: not permanent)"""
    roles = []
    k = 0
    for c in nodes:
        pm = c['perm']
        if pm == 'maybe':
            pm = bool(reading[k]) if reading is not None else False
            k += 1
        roles.append(_expected(pm, c['has_dir'], c['has_ref'], c['type']))
    if 'error' in roles:
        return 'error', roles
    return 'ok', roles


def _readings(nodes):
    n = len([c for c in nodes if c['perm'] == 'maybe'])
    return [list(r) for r in itertools.product((False, True), repeat=n)]


def _run_classify_rnd(inst, res):
    nodes, _, _ = _rnd_nodes(inst['template'])
    _run_classify_multi(dict(inst, nodes=nodes, graph=inst['template']), res)


def _run_classify_multi(inst, res):
    nodes = inst['nodes']
    graph = inst.get('graph')
    ds = [sym_int(f'dir{i+1}') if c['has_dir'] else None for i, c in enumerate(nodes)]
    rs = [sym_real(f'ref{i+1}') if c['has_ref'] else None for i, c in enumerate(nodes)]
    ex = explore(lambda: _multi_outcome(nodes, ds, rs, graph))
    absorb(res, ex)
    if not ex.complete:
        res['status'] = INCONCLUSIVE
        res['notes'].append(ex.status)
        return
    require_exhaustive(res, ex)
    want_status, roles = _multi_expected(nodes)
    cfg = dict(nodes=nodes, graph=graph)
    for p in ex.paths:
        res['obligations'] += 1
        s = z3.Solver()
        s.add(p.cond())
        assert str(s.check()) == 'sat'
        mdl = s.model()
        dv = [model_int(mdl, d) if d is not None else None for d in ds]
        rv = [model_int(mdl, r) if r is not None else None for r in rs]
        inputs = dict(dirs=dv, refs=rv)
        if p.kind == 'exc':
            _viol(res, 'classify_multi', dict(kind='raises', **cfg), cfg, inputs, repr(p.exc), [want_status, roles])
            continue
        status, objs, cons = p.value

        def judge(want_status_, roles_):
            if status != want_status_:
                return f'{status}, contract says {want_status_} (roles {roles_})'
            if status == 'ok':
                want_o = [i for i, r in enumerate(roles_) if r == 'obj']
                want_c = [i for i, r in enumerate(roles_) if r == 'con']
                same_names = isinstance(graph, list) and len(set(graph)) < len(graph)
                srt = sorted if same_names else list  # nodes with equal names have no prescribed mutual order
                if srt(o[0] for o in objs) != want_o or srt(c[0] for c in cons) != want_c:
                    return f'objectives {[o[0] for o in objs]} constraints {[c[0] for c in cons]}, contract: {want_o} / {want_c} (by name)'
                claims = []
                for i, sign in objs:
                    claims.append((ds[i].e <= 0) == z3.BoolVal(sign == -1))
                    if sign not in (-1, 1):
                        return f'sign {sign}'
                for i, sign, ref in cons:
                    claims.append(z3.And((ds[i].e <= 0) == z3.BoolVal(sign == -1), z3val(ref) == rs[i].e))
                if claims:
                    s2 = z3.Solver()
                    s2.add(p.cond(), z3.Not(z3.And(*claims)))
                    if str(s2.check()) != 'unsat':
                        return 'sign / reference of an objective or constraint does not follow its own node'
            return None
        bad = judge(want_status, roles)
        if bad:  # nodes that exist in every architecture only through choices may be read either way
            for reading in _readings(nodes)[1:]:
                if judge(*_multi_expected(nodes, reading)) is None:
                    bad = None
                    break
        nat = _multi_native(nodes, dv, rv, graph)
        if bad:
            _viol(res, 'classify_multi', dict(kind='contract', **cfg), cfg, inputs, dict(symbolic=bad, native=repr(nat)), [want_status, roles])
        else:
            res['discharged'] += 1
        if nat[0] != status or (status == 'ok' and (sorted(o[0] for o in nat[1]) != sorted(o[0] for o in objs) or sorted(c[0] for c in nat[2]) != sorted(c[0] for c in cons))):
            res['status'] = HARNESS_ERROR
            res['notes'].append(f'concolic mismatch: {inputs}: path {p.value}, native {nat}')
        res['validated'] += 1
    res['sample'] = dict(harness=inst['label'], expected=[want_status, roles], paths=[dict(pc=str(p.pc), outcome=str(p.value)[:200]) for p in ex.paths[:4]])


def _multi_native(nodes, dv, rv, graph=None):
    def num(x):
        if isinstance(x, dict):
            return x['float']
        return x
    return _multi_outcome(nodes, [num(d) if d is not None else None for d in dv], [float(num(r)) if r is not None else None for r in rv], graph)


def _twice_outcome(d, r, ty, order):
    """one metric node under option B of a choice; a processor on the whole design space (M conditional) and one on the
    sub design space in which B has been chosen (M permanent) are built one after the other on the same node objects"""
    from adsg_core import BasicDSG, NamedNode, MetricNode, DSGEvaluator
    g = BasicDSG()
    root, a, b = NamedNode('R'), NamedNode('A'), NamedNode('B')
    m = MetricNode('M', direction=d, ref=r, type_=_mtype(ty))
    c = g.add_selection_choice('C', root, [a, b])
    g.add_edges([(b, m)])
    # a second choice keeps the sub design space a design space
    g.add_selection_choice('C2', root, [NamedNode('X0'), NamedNode('X1')])
    g = g.set_start_nodes({root})
    sub = g.get_for_apply_selection_choice(c, b)
    out = {}
    for which in order:
        ev = DSGEvaluator(g if which == 'full' else sub)
        try:
            objs, cons = ev.objectives, ev.constraints
            out[which] = ('ok', [(0, o.sign) for o in objs if o.node is m], [(0, c_.sign, c_.ref) for c_ in cons if c_.node is m],
                          len(objs)+len(cons))
        except RuntimeError:
            out[which] = ('error', None, None, 0)
    return out['full'], out['sub']


def _run_classify_twice(inst, res):
    has_dir, has_ref, ty, order = inst['has_dir'], inst['has_ref'], inst['type'], inst['order']
    d = sym_int('dir') if has_dir else None
    r = sym_real('ref') if has_ref else None
    ex = explore(lambda: _twice_outcome(d, r, ty, order))
    absorb(res, ex)
    if not ex.complete:
        res['status'] = INCONCLUSIVE
        res['notes'].append(ex.status)
        return
    require_exhaustive(res, ex)
    want = dict(full=_expected(False, has_dir, has_ref, ty), sub=_expected(True, has_dir, has_ref, ty))
    cfg = dict(has_dir=has_dir, has_ref=has_ref, type=ty, order=order)
    for p in ex.paths:
        res['obligations'] += 1
        s_ = z3.Solver()
        s_.add(p.cond())
        s_.check()
        mdl = s_.model()
        dv = model_int(mdl, d) if has_dir else None
        rv = model_int(mdl, r) if has_ref else None
        if p.kind == 'exc':
            _viol(res, 'classify_twice', dict(kind='raises', **cfg), cfg, dict(dir=dv, ref=rv), repr(p.exc), want)
            continue
        bad = []
        for which, (status, objs, cons, n_all) in zip(('full', 'sub'), p.value):
            got = 'error' if status == 'error' else ('obj' if objs else ('con' if cons else 'none'))
            if got != want[which]:
                bad.append(f'{which} design space: role {got}, contract says {want[which]}')
            elif status == 'ok' and n_all > 1:
                bad.append(f'{which}: used twice')
            elif got in ('obj', 'con'):
                sign = (objs or cons)[0][1]
                claim = (d.e <= 0) == z3.BoolVal(sign == -1)
                if got == 'con':
                    claim = z3.And(claim, z3val(cons[0][2]) == r.e)
                s2 = z3.Solver()
                s2.add(p.cond(), z3.Not(claim))
                if str(s2.check()) != 'unsat':
                    bad.append(f'{which}: sign / reference do not follow the node')
        if bad:
            def num(x):
                return x['float'] if isinstance(x, dict) else x
            nat = _twice_outcome(num(dv) if dv is not None else None, float(num(rv)) if rv is not None else None, ty, order)
            _viol(res, 'classify_twice', dict(kind='contract', **cfg), cfg, dict(dir=dv, ref=rv), dict(symbolic=bad, native=repr(nat)), want)
        else:
            res['discharged'] += 1
        res['validated'] += 1
    res['sample'] = dict(harness=inst['label'], expected=want, paths=len(ex.paths))


def _mk_eval_graph(refs):
    """R -> MO (objective, permanent), R -> MC (constraint, permanent), B -> MK (constraint, conditional: option B)"""
    from adsg_core import BasicDSG, NamedNode, MetricNode, MetricType
    g = BasicDSG()
    root, a, b = NamedNode('R'), NamedNode('A'), NamedNode('B')
    mo = MetricNode('o_obj', direction=-1)
    mc = MetricNode('c_perm', direction=1, ref=refs[0], type_=MetricType.CONSTRAINT)
    mk = MetricNode('k_cond', direction=-1, ref=refs[1])
    choice = g.add_selection_choice('C', root, [a, b])
    g.add_edges([(root, mo), (root, mc), (b, mk)])
    g = g.set_start_nodes({root})
    return g, choice, [a, b], (mo, mc, mk)


def _run_evaluate(inst, res):
    from adsg_core import DSGEvaluator
    arch = inst['arch']
    refs = [sym_real('ref_c'), sym_real('ref_k')]
    vals = [sym_real('v_o'), sym_real('v_c'), sym_real('v_k')]
    stale = [sym_real('s_o'), sym_real('s_c'), sym_real('s_k')]
    prestore = bool(inst.get('prestore'))
    n_obl = 0
    for behaviour in itertools.product(('given', 'missing', 'nan', 'always'), repeat=3):
        # 'always': the evaluator answers for this metric node even when it is not among the nodes it was asked for
        def run():
            g, choice, opts, metrics = _mk_eval_graph(refs)
            if prestore:  # values left on the design space graph by earlier use: instances inherit the dict
                for m_, s_ in zip(metrics, stale):
                    g.set_metric_value(m_, s_)

            class Ev(DSGEvaluator):
                def _evaluate(self, dsg, metric_nodes):
                    out = {}
                    for i, m in enumerate(metrics):
                        if behaviour[i] == 'always':
                            out[m] = vals[i]
                        if m not in metric_nodes:
                            continue
                        if behaviour[i] == 'given':
                            out[m] = vals[i]
                        elif behaviour[i] == 'nan':
                            out[m] = math.nan
                    return out
            ev = Ev(g)
            inst_g = g.get_for_apply_selection_choice(choice, opts[arch])
            o, c = ev.evaluate(inst_g)
            return o, c, [inst_g.metric_value(m) for m in metrics], [ob.node for ob in ev.objectives], \
                [co.node for co in ev.constraints], metrics
        ex = explore(run)
        absorb(res, ex)
        paths = _paths_or_error(ex, res, str(behaviour))
        if paths is None:
            continue
        present = [True, True, arch == 1]

        def want(i):
            if behaviour[i] in ('given', 'always'):
                return vals[i]
            return math.nan
        problems = []
        for p_ in paths:
            if p_.kind == 'exc':
                problems.append(f'raises {p_.exc!r} when {p_.pc}')
                continue
            cond = p_.cond()
            o, c, stored, onodes, cnodes, metrics = p_.value
            mo, mc, mk = metrics
            if len(o) != len(onodes) or len(c) != len(cnodes) or onodes != [mo] or cnodes != [mc, mk]:
                problems.append(f'objectives/constraints: {onodes} {cnodes}, values {o} {c}')
                continue
            exp = [want(0)], [want(1), want(2) if present[2] else refs[1]]
            for got, w in zip(list(o)+list(c), exp[0]+exp[1]):
                res['obligations'] += 1
                n_obl += 1
                if _val_ok(got, w, cond):
                    res['discharged'] += 1
                else:
                    problems.append(f'value {got} where {w} expected (when {p_.pc})')
            for i, m in enumerate(metrics):
                if present[i] and not _val_ok(stored[i], want(i), cond):
                    problems.append(f'metric_values[{m}] = {stored[i]}, expected {want(i)} (when {p_.pc})')
        if problems:
            _viol(res, 'evaluate', dict(kind='evaluate', arch=arch, behaviour=list(behaviour), prestore=prestore),
                  dict(arch=arch, prestore=prestore), dict(behaviour=list(behaviour)), problems, 'documented evaluate contract')
        res['validated'] += 1
    # concolic: native run with numbers
    nat = _evaluate_native(arch, ('given', 'missing', 'nan'), [1.5, -2.25], [3., 4., 5.], prestore=prestore)
    want_nat = ([3.], [math.nan, math.nan if arch == 1 else -2.25])
    if repr(nat) != repr(want_nat):
        _viol(res, 'evaluate', dict(kind='evaluate_native', arch=arch, prestore=prestore), dict(arch=arch, prestore=prestore),
              dict(behaviour=['given', 'missing', 'nan']), repr(nat), repr(want_nat))
    res['sample'] = dict(harness=inst['label'], behaviours=64, value_obligations=n_obl)


def _val_ok(got, w, cond=None):
    """the returned value is the expected one for every input on the path (cond = its path condition)"""
    if isinstance(w, float) and math.isnan(w):
        return isinstance(got, float) and math.isnan(got)
    if isinstance(got, float) and math.isnan(got):
        return False
    if not is_sym(w):
        return (not is_sym(got)) and got == w
    g_ = got.e if is_sym(got) else z3val(got)
    if z3.is_true(z3.simplify(g_ == w.e)):
        return True
    if cond is None:
        return False
    s_ = z3.Solver()
    s_.add(cond, g_ != w.e)
    return str(s_.check()) == 'unsat'


def _paths_or_error(ex, res, what):
    """paths of an exploration whose code may branch on the symbolic values (e.g. a truthiness test): every path is
    checked under its own path condition; an exception on a path is reported by the caller"""
    if not ex.complete:
        res['status'] = HARNESS_ERROR
        res['notes'].append(f'{what}: {ex.status}')
        return None
    if not require_exhaustive(res, ex):
        return None
    return ex.paths


def _seq_run(archs, behaviours, refs, vals):
    """one evaluator, two evaluations in a row; returns everything observable"""
    from adsg_core import DSGEvaluator
    g, choice, opts, metrics = _mk_eval_graph(refs)
    calls = []

    class Ev(DSGEvaluator):
        def _evaluate(self, dsg, metric_nodes):
            k = len(calls)
            calls.append(k)
            out = {}
            for i, m in enumerate(metrics):
                if m not in metric_nodes:
                    continue
                if behaviours[k][i] == 'given':
                    out[m] = vals[k][i]
                elif behaviours[k][i] == 'nan':
                    out[m] = math.nan
            return out
    ev = Ev(g)
    inst1 = g.get_for_apply_selection_choice(choice, opts[archs[0]])
    o1, c1 = ev.evaluate(inst1)
    snap1 = (list(o1), list(c1))
    inst2 = g.get_for_apply_selection_choice(choice, opts[archs[1]])
    o2, c2 = ev.evaluate(inst2)
    return dict(first=(o1, c1), snap=snap1, second=(o2, c2), stored1=[inst1.metric_value(m) for m in metrics],
                stored2=[inst2.metric_value(m) for m in metrics], base=[g.metric_value(m) for m in metrics],
                cnodes=[c.node for c in ev.constraints], onodes=[o.node for o in ev.objectives], metrics=metrics)


def _seq_want(arch, behaviour, refs, vals):
    w = [vals[i] if behaviour[i] == 'given' else math.nan for i in range(3)]
    return [w[0]], [w[1], w[2] if arch == 1 else refs[1]], [w[0], w[1], w[2] if arch == 1 else None]


def _run_evaluate_seq(inst, res):
    archs = inst['archs']
    refs = [sym_real('ref_c'), sym_real('ref_k')]
    vals = [[sym_real('v1_o'), sym_real('v1_c'), sym_real('v1_k')], [sym_real('v2_o'), sym_real('v2_c'), sym_real('v2_k')]]
    n = 0
    for b1 in (('given',)*3, ('missing', 'nan', 'missing')):
        for b2 in itertools.product(('given', 'missing', 'nan'), repeat=3):
            ex = explore(lambda: _seq_run(archs, (b1, b2), refs, vals))
            absorb(res, ex)
            paths = _paths_or_error(ex, res, f'{b1} {b2}')
            if paths is None:
                continue
            problems = []
            for p_ in paths:
                if p_.kind == 'exc':
                    problems.append(f'raises {p_.exc!r} when {p_.pc}')
                    continue
                cond = p_.cond()
                v = p_.value
                mo, mc, mk = v['metrics']
                if v['onodes'] != [mo] or v['cnodes'] != [mc, mk]:
                    problems.append(f"objectives/constraints: {v['onodes']} {v['cnodes']}")
                    continue
                for k, (arch, beh, key) in enumerate(((archs[0], b1, 'first'), (archs[1], b2, 'second'))):
                    wo, wc, ws = _seq_want(arch, beh, refs, vals[k])
                    o, c = v[key]
                    if len(o) != 1 or len(c) != 2:
                        problems.append(f'{key}: {o} {c}')
                        continue
                    for got, w in zip(list(o)+list(c), wo+wc):
                        res['obligations'] += 1
                        n += 1
                        if _val_ok(got, w, cond):
                            res['discharged'] += 1
                        else:
                            problems.append(f'{key} evaluation (arch {arch}, evaluator {beh}): value {got} where {w} expected'
                                            + (' [after the second evaluation]' if key == 'first' else '') + f' (when {p_.pc})')
                    for i, (got, w) in enumerate(zip(v['stored1' if key == 'first' else 'stored2'], ws)):
                        if w is not None and not _val_ok(got, w, cond):
                            problems.append(f'{key} instance metric_value[{i}] = {got}, expected {w}')
                # the lists returned by the first call are not touched by the second
                o1, c1 = v['first']
                so, sc = v['snap']
                if len(o1) != len(so) or len(c1) != len(sc) or any(a is not b and not (isinstance(a, float) and isinstance(b, float) and math.isnan(a) and math.isnan(b))
                                                                   for a, b in zip(list(o1)+list(c1), so+sc)):
                    problems.append(f'result of the first evaluation changed by the second: {so} {sc} -> {o1} {c1}')
                if any(x is not None for x in v['base']):
                    problems.append(f"evaluation stored values on the design space graph: {v['base']}")
            if problems:
                _viol(res, 'evaluate_seq', dict(kind='evaluate_seq', archs=archs, behaviours=[list(b1), list(b2)]), dict(archs=archs),
                      dict(behaviours=[list(b1), list(b2)]), problems, 'each evaluation follows the contract on its own')
            res['validated'] += 1
    nat = _seq_native(archs, (('given',)*3, ('missing', 'given', 'nan')))
    if nat:
        _viol(res, 'evaluate_seq', dict(kind='evaluate_seq_native', archs=archs), dict(archs=archs),
              dict(behaviours=[['given']*3, ['missing', 'given', 'nan']]), nat, 'each evaluation follows the contract on its own')
    res['sample'] = dict(harness=inst['label'], behaviour_pairs=54, value_obligations=n)


def _seq_native(archs, behaviours):
    """native run with numbers; returns a list of problems"""
    refs, vals = [1.5, -2.25], [[3., 4., 5.], [6., 7., 8.]]
    v = _seq_run(archs, behaviours, refs, vals)
    problems = []
    for k, key in enumerate(('first', 'second')):
        wo, wc, _ = _seq_want(archs[k], behaviours[k], refs, vals[k])
        o, c = v[key]
        if repr((list(o), list(c))) != repr((wo, wc)):
            problems.append(f'{key} evaluation of arch {archs[k]} with evaluator {behaviours[k]}: {(o, c)}, expected {(wo, wc)}')
    return problems


def _run_evaluate_rnd(inst, res):
    """every valid design of a seeded random graph is decoded and evaluated by one evaluator (in listing order, so state
    carried between evaluations shows); the evaluator returns a symbolic real, nothing, or NaN per present metric node
    (rotating); each returned value must be the evaluator's value / NaN / the reference of an absent constraint"""
    from adsg_core import DSGEvaluator
    name = inst['template']
    nodes, presence, xs = _rnd_nodes(name)
    want_status, roles = _multi_expected(nodes)
    if any(c['perm'] == 'maybe' for c in nodes):
        # (which reading the library takes is decided by classify_rnd; here the one it takes is used)
        nat = _multi_outcome(nodes, [(-1 if k % 2 else 1) if c['has_dir'] else None for k, c in enumerate(nodes)],
                             [1.5 if c['has_ref'] else None for c in nodes], name)
        for reading in _readings(nodes):
            ws, rl = _multi_expected(nodes, reading)
            if ws == nat[0] and (ws == 'error' or ([o[0] for o in nat[1]] == [k for k, r in enumerate(rl) if r == 'obj'] and
                                                   [c[0] for c in nat[2]] == [k for k, r in enumerate(rl) if r == 'con'])):
                want_status, roles = ws, rl
                break
    if want_status == 'error' or not nodes:
        res['notes'].append('no metric nodes' if not nodes else 'classification is rejected (ambiguous undeclared metric): nothing to evaluate')
        res['sample'] = dict(harness=inst['label'], skipped=True)
        return
    xs, presence = xs[:12], presence[:12]
    ds = [(-1 if k % 2 else 1) if c['has_dir'] else None for k, c in enumerate(nodes)]
    rs = [sym_real(f'ref{k+1}') if c['has_ref'] else None for k, c in enumerate(nodes)]
    # symbolic evaluator values for the first two designs, distinct plain numbers for the others (a value test in the
    # evaluated code forks per symbolic value)
    vals = [[sym_real(f'v{a}_{k+1}') if a < 2 else float(100+10*a+k) for k in range(len(nodes))] for a in range(len(xs))]
    beh = lambda a, k: ('given', 'given', 'missing', 'nan')[(a+2*k) % 4]  # noqa

    def run():
        g, ms = _mk_rnd_graph(name, ds, rs)
        calls = []

        class Ev(DSGEvaluator):
            def _evaluate(self, dsg, metric_nodes):
                a = len(calls)
                calls.append(a)
                out = {}
                for k, m in enumerate(ms):
                    if m in metric_nodes:
                        if beh(a, k) == 'given':
                            out[m] = vals[a][k]
                        elif beh(a, k) == 'nan':
                            out[m] = math.nan
                return out
        ev = Ev(g)
        results = []
        for x in xs:
            inst_g, _, _ = ev.get_graph(list(x))
            o, c = ev.evaluate(inst_g)
            results.append((list(o), list(c), [m in inst_g.graph.nodes for m in ms]))
        idx = {id(m): k for k, m in enumerate(ms)}
        return results, [idx[id(o.node)] for o in ev.objectives], [idx[id(c.node)] for c in ev.constraints]
    ex = explore(run)
    absorb(res, ex)
    paths = _paths_or_error(ex, res, name)
    if paths is None:
        return
    problems = []
    for p_ in paths:
        if p_.kind == 'exc':
            problems.append(f'raises {p_.exc!r} when {p_.pc}')
            continue
        cond = p_.cond()
        results, oidx, cidx = p_.value
        if oidx != [k for k, r in enumerate(roles) if r == 'obj'] or cidx != [k for k, r in enumerate(roles) if r == 'con']:
            problems.append(f'objectives {oidx} constraints {cidx}; contract {roles}')
            continue
        for a, (o, c, present) in enumerate(results):
            if present != presence[a]:
                res['status'] = HARNESS_ERROR
                res['notes'].append(f'design {xs[a]}: presence differs between two decodes')
                return

            def want(k):
                if not present[k]:
                    return rs[k] if roles[k] == 'con' else math.nan
                return vals[a][k] if beh(a, k) == 'given' else math.nan
            if len(o) != len(oidx) or len(c) != len(cidx):
                problems.append(f'design {xs[a]}: {len(o)} objective / {len(c)} constraint values')
                continue
            for got, k in list(zip(o, oidx))+list(zip(c, cidx)):
                res['obligations'] += 1
                if _val_ok(got, want(k), cond):
                    res['discharged'] += 1
                else:
                    problems.append(f'design {xs[a]} (evaluation {a}), metric M{k+1} ({roles[k]}, present={present[k]}, evaluator: {beh(a, k)}): '
                                    f'{got}, expected {want(k)} (when {p_.pc})')
    if problems:
        _viol(res, 'evaluate_rnd', dict(kind='evaluate_rnd', template=name), dict(template=name), dict(designs=xs), problems[:4],
              'documented evaluate contract for every valid design')
    res['validated'] += 1
    res['sample'] = dict(harness=inst['label'], designs=len(xs), roles=roles)


def _evaluate_native(arch, behaviour, refs, vals, prestore=False):
    from adsg_core import DSGEvaluator
    g, choice, opts, metrics = _mk_eval_graph(refs)
    if prestore:
        for m_, s_ in zip(metrics, (97., 98., 99.)):
            g.set_metric_value(m_, s_)

    class Ev(DSGEvaluator):
        def _evaluate(self, dsg, metric_nodes):
            out = {}
            for i, m in enumerate(metrics):
                if behaviour[i] == 'always':
                    out[m] = vals[i]
                if m not in metric_nodes:
                    continue
                if behaviour[i] == 'given':
                    out[m] = vals[i]
                elif behaviour[i] == 'nan':
                    out[m] = math.nan
            return out
    ev = Ev(g)
    inst_g = g.get_for_apply_selection_choice(choice, opts[arch])
    return ev.evaluate(inst_g)


def _run_order(inst, res):
    """objectives and constraints are listed in a stable order (by metric name), whatever the insertion order"""
    from adsg_core import BasicDSG, NamedNode, MetricNode, DSGEvaluator
    names = ['b', 'a', 'c']
    orders = []
    for perm_ in itertools.permutations(range(3)):
        g = BasicDSG()
        root = NamedNode('R')
        ms = [MetricNode(n, direction=-1) for n in names]
        g.add_edges([(root, ms[i]) for i in perm_])
        g = g.set_start_nodes({root})
        ev = DSGEvaluator(g)
        orders.append([o.name for o in ev.objectives])
        res['obligations'] += 1
        res['validated'] += 1
    if any(o != orders[0] for o in orders) or orders[0] != sorted(names):
        _viol(res, 'order', dict(kind='order'), {}, dict(names=names), orders, 'same (sorted) order for every insertion order')
    else:
        res['discharged'] += len(orders)
    res['paths'] = len(orders)
    res['sample'] = dict(harness='objective order', orders=orders[:2])


def _replay_multi_bad(nat, want_status, roles, inp):
    def num(x):
        return x['float'] if isinstance(x, dict) else x
    if nat[0] != want_status:
        return True
    if nat[0] == 'error':
        return False
    if sorted(o[0] for o in nat[1]) != [i for i, r in enumerate(roles) if r == 'obj'] or \
            sorted(c[0] for c in nat[2]) != [i for i, r in enumerate(roles) if r == 'con']:
        return True
    for i, sign in nat[1]:
        if sign != (-1 if num(inp['dirs'][i]) <= 0 else 1):
            return True
    for i, sign, ref in nat[2]:
        if sign != (-1 if num(inp['dirs'][i]) <= 0 else 1) or ref != float(num(inp['refs'][i])):
            return True
    return False


def replay(rec):
    a = rec['replay_args']
    cfg, inp = a['config'], a['inputs']
    if a['check'] == 'classify':
        def num(x):
            if isinstance(x, dict):
                return x['float']
            return x
        nat = _classify_native(cfg['perm'], num(inp['dir']), num(inp['ref']), cfg['type'])
        want = _expected(cfg['perm'], cfg['has_dir'], cfg['has_ref'], cfg['type'])
        role = 'error' if nat[0] == 'error' else ('obj' if nat[0] else ('con' if nat[1] else 'none'))
        print(f'config {cfg} dir={inp["dir"]} ref={inp["ref"]}: library -> {nat} ({role}); contract -> {want}')
        if role != want:
            return True
        if role == 'obj':
            return nat[0][0][1] != (-1 if num(inp['dir']) <= 0 else 1)
        if role == 'con':
            return nat[1][0][1] != (-1 if num(inp['dir']) <= 0 else 1) or nat[1][0][2] != num(inp['ref'])
        return False
    if a['check'] == 'evaluate':
        arch = cfg['arch']
        beh = inp['behaviour']
        nat = _evaluate_native(arch, beh, [1.5, -2.25], [3., 4., 5.], prestore=bool(cfg.get('prestore')))
        w = lambda i: [3., 4., 5.][i] if beh[i] in ('given', 'always') else math.nan  # noqa
        want = ([w(0)], [w(1), w(2) if arch == 1 else -2.25])
        print('evaluate ->', nat, 'expected', want)
        return repr(nat) != repr(want)
    if a['check'] == 'evaluate_seq':
        probs = _seq_native(cfg['archs'], [tuple(b) for b in inp['behaviours']])
        print('evaluate twice with one evaluator ->', probs or 'as the contract says')
        if not probs:  # list identity / stored values: repeat the observation natively
            v = _seq_run(cfg['archs'], [tuple(b) for b in inp['behaviours']], [1.5, -2.25], [[3., 4., 5.], [6., 7., 8.]])
            if repr((list(v['first'][0]), list(v['first'][1]))) != repr(v['snap']) or any(x is not None for x in v['base']):
                print('first result after second call', v['first'], 'snapshot', v['snap'], 'base graph values', v['base'])
                return True
        return bool(probs)
    if a['check'] == 'classify_twice':
        def num(x):
            return x['float'] if isinstance(x, dict) else x
        d_, r_ = inp.get('dir'), inp.get('ref')
        nat = _twice_outcome(num(d_) if d_ is not None else None, float(num(r_)) if r_ is not None else None, cfg['type'], cfg['order'])
        want = dict(full=_expected(False, cfg['has_dir'], cfg['has_ref'], cfg['type']), sub=_expected(True, cfg['has_dir'], cfg['has_ref'], cfg['type']))
        roles = {w: ('error' if o[0] == 'error' else ('obj' if o[1] else ('con' if o[2] else 'none'))) for w, o in zip(('full', 'sub'), nat)}
        print(f'order {cfg["order"]}: library -> {roles}; contract -> {want}')
        return roles != want
    if a['check'] == 'evaluate_rnd':
        r2 = new_result('replay')
        _run_evaluate_rnd(dict(label='replay', template=cfg['template']), r2)
        for v in r2['violations'][:1]:
            print(v['observed'])
        return bool(r2['violations'])
    if a['check'] == 'classify_multi':
        nat = _multi_native(cfg['nodes'], inp['dirs'], inp['refs'], cfg.get('graph'))
        for reading in _readings(cfg['nodes']):
            want_status, roles = _multi_expected(cfg['nodes'], reading)
            if not _replay_multi_bad(nat, want_status, roles, inp):
                print(f'library -> {nat}: matches the contract {want_status} {roles}')
                return False
        want_status, roles = _multi_expected(cfg['nodes'])
        print(f'nodes {cfg["nodes"]} dirs={inp["dirs"]} refs={inp["refs"]}: library -> {nat}; contract -> {want_status} {roles}')
        return True
    return True
