"""
Helpers shared by C09 / C10 / C11 / C07: run the real validity kernels symbolically, summarise them, build queries.
"""
import contextlib
import numpy as np
import z3
from symx import *
from spec.conn import ConnSpec


_WARM = [False]


def _warm_up():
    """compile the jitted kernels once before the module attributes are swapped: numba resolves the global
    `_check_conns` at compile time, and a first compilation inside the swapped region would fail"""
    if _WARM[0]:
        return
    from adsg_core.optimization.assign_enc.matrix import AggregateAssignmentMatrixGenerator, Node, NodeExistence, \
        MatrixGenSettings, NodeExistencePatterns
    ex = NodeExistence(src_n_conn_override={0: [0, 1]})
    gen = AggregateAssignmentMatrixGenerator(MatrixGenSettings(
        [Node([0, 1]), Node(min_conn=0)], [Node([1])], existence=NodeExistencePatterns([NodeExistence(), ex])))
    gen.validate_matrix(np.array([[1], [0]]), existence=ex)
    gen.validate_matrix(np.array([[1], [0]]))
    _WARM[0] = True


@contextlib.contextmanager
def symbolic_kernels():
    """Within the block, a matrix of symbolic entries handed to `matrix._validate_matrix` is checked by the Python source
    of the numba kernels (`_validate_matrix.py_func`; every numba-compiled helper it calls, today `_check_conns`, likewise from its Python source) and the concrete
    settings arrays they index with a matrix sum are wrapped in SArr views. Concrete integer matrices still go to the
    jitted kernel. Only the module attribute `_validate_matrix` (looked up by the Python method `validate_matrix`) is
    replaced; `_check_conns` stays the numba dispatcher so that jitted code compiled meanwhile still resolves it. The
    callers (`AggregateAssignmentMatrixGenerator.validate_matrix` etc.) are the unmodified real code."""
    import types
    import adsg_core.optimization.assign_enc.matrix as mx
    _warm_up()
    orig_vm = mx._validate_matrix
    vm_src = getattr(orig_vm, 'py_func', orig_vm)
    # private globals in which EVERY numba-compiled function of the module is its Python source (the kernel may call
    # helpers - today `_check_conns` - and a refactoring may add others); all of them share this dict, so nested calls
    # resolve to the Python versions as well
    glb = dict(vm_src.__globals__)
    for name_, obj_ in list(glb.items()):
        pf_ = getattr(obj_, 'py_func', None)
        if isinstance(pf_, types.FunctionType):
            glb[name_] = types.FunctionType(pf_.__code__, glb, pf_.__name__, pf_.__defaults__, pf_.__closure__)
    vm_py = types.FunctionType(vm_src.__code__, glb, vm_src.__name__, vm_src.__defaults__, vm_src.__closure__)

    def vm(matrix, max_conn_mat, sns, tns, so, to, max_src, max_tgt):
        if isinstance(matrix, np.ndarray) and matrix.dtype != object:
            return orig_vm(matrix, max_conn_mat, sns, tns, so, to, max_src, max_tgt)
        return vm_py(matrix, max_conn_mat, SArr(sns), SArr(tns), SArr(so), SArr(to), max_src, max_tgt)

    mx._validate_matrix = vm
    try:
        yield
    finally:
        mx._validate_matrix = orig_vm


def sym_matrix(ns, nt, prefix='m'):
    """object array of fresh symbolic ints, the matrix of z3 terms, and the precondition entries >= 0"""
    M = np.empty((ns, nt), dtype=object)
    T = [[None]*nt for _ in range(ns)]
    pre = []
    for i in range(ns):
        for j in range(nt):
            v = sym_int(f'{prefix}_{i}_{j}')
            M[i, j] = v
            T[i][j] = v.e
            pre.append(v.e >= 0)
    return M, T, pre


def summarise_validator(gen, existence, ns, nt, prefix='m', **kw):
    """V(M): disjunction of the accepting path conditions of the real validate_matrix on a symbolic matrix"""
    M, T, pre = sym_matrix(ns, nt, prefix)

    def run():
        with symbolic_kernels():
            return gen.validate_matrix(M.copy(), existence=existence)

    ex = explore(run, pre=pre, **kw)
    acc = []
    for p in ex.paths:
        if p.kind == 'exc':
            continue
        v = p.value
        if is_sym(v):
            acc.append(z3.And(p.cond(), z3val(v)))
        elif bool(v):
            acc.append(p.cond())
    V = z3.Or(*acc) if acc else z3.BoolVal(False)
    return ex, V, T, pre


def member_formula(T, matrices):
    """M in {listed matrices}"""
    ns = len(T)
    nt = len(T[0]) if ns else 0
    ors = []
    for m in matrices:
        ors.append(z3.And(*[T[i][j] == int(m[i][j]) for i in range(ns) for j in range(nt)]) if ns*nt else z3.BoolVal(True))
    return z3.Or(*ors) if ors else z3.BoolVal(False)


def model_matrix(model, T):
    return [[model.eval(t, model_completion=True).as_long() for t in row] for row in T]


class Prover:
    """discharges `pre => claim` (by refuting pre and not claim); counts obligations"""

    def __init__(self, res, timeout_ms=20000):
        self.res = res
        self.timeout_ms = timeout_ms

    def refute(self, pre, negated_claim):
        """returns ('unsat', None) | ('sat', model) | ('unknown', None)"""
        s = z3.Solver()
        s.set('timeout', self.timeout_ms)
        s.add(*pre)
        s.add(negated_claim)
        self.res['obligations'] += 1
        import time
        t = time.perf_counter()
        r = str(s.check())
        self.res['solver_queries'] += 1
        self.res['solver_s'] += time.perf_counter()-t
        if r == 'unsat':
            self.res['discharged'] += 1
            return r, None
        if r == 'sat':
            return r, s.model()
        return r, None

    def satisfiable(self, *cs):
        s = z3.Solver()
        s.set('timeout', self.timeout_ms)
        s.add(*cs)
        self.res['solver_queries'] += 1
        return str(s.check())

    def smt2(self, pre, negated_claim):
        s = z3.Solver()
        s.add(*pre)
        s.add(negated_claim)
        return '(set-logic ALL)\n'+s.to_smt2()


def spec_of(s, pat):
    return ConnSpec(s['src'], s['tgt'], s.get('excluded') or (), pat, s.get('mcp'))


def run_external_solvers(smt2_text, timeout_s=20):
    """second opinion on a closing query: /usr/bin/z3 4.8.12 and the cvc5 1.0.3 binary. Returns dict name -> answer.
    An `(error` line makes the answer 'error'."""
    import subprocess
    import tempfile
    import os
    out = {}
    with tempfile.NamedTemporaryFile('w', suffix='.smt2', delete=False) as fp:
        fp.write(smt2_text)
        path = fp.name
    try:
        for name, cmd in (('z3-4.8.12', ['/usr/bin/z3', f'-T:{timeout_s}', path]),
                          ('cvc5-1.0.3', ['cvc5', f'--tlimit={timeout_s*1000}', path])):
            try:
                r = subprocess.run(cmd, capture_output=True, text=True, timeout=timeout_s+5)
                txt = (r.stdout+r.stderr).strip()
                if '(error' in txt:
                    out[name] = 'error'
                else:
                    first = txt.split('\n')[0].strip() if txt else ''
                    out[name] = first if first in ('sat', 'unsat', 'unknown') else 'unknown'
            except Exception as e:  # noqa
                out[name] = 'unknown'
    finally:
        os.unlink(path)
    return out
