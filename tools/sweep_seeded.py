"""
Development sweep (not a registered check): run the quick checks against every seeded change in /verif/seeded/*,
on a scratch copy of the repository (git worktree outside /repo and /verif), never touching /repo or the committed
evidence. Writes seeded/<id>/result.json and seeded/SUMMARY.md.

  python tools/sweep_seeded.py [--only substr] [--tier quick] [--all-checks] [--scratch /tmp/sweep_repo]
"""
import os
import re
import sys
import json
import time
import glob
import shutil
import argparse
import subprocess

VERIF = os.path.dirname(os.path.dirname(os.path.abspath(__file__)))
ALL = ['C07', 'C09', 'C10', 'C11', 'C13', 'C15', 'C16', 'C17']
# which checks are expected to see a change, besides the one of its own property
ALSO = {'C09': ['C11'], 'C13': ['C16'], 'C07': ['C10']}


def sh(cmd, timeout=7200, env=None, cwd=None):
    e = dict(os.environ)
    e.update(env or {})
    r = subprocess.run(cmd, shell=True, capture_output=True, text=True, timeout=timeout, env=e, cwd=cwd)
    return r.returncode, r.stdout+r.stderr


def main():
    ap = argparse.ArgumentParser()
    ap.add_argument('--only', default=None)
    ap.add_argument('--tier', default='quick')
    ap.add_argument('--all-checks', action='store_true')
    ap.add_argument('--scratch', default='/tmp/sweep_repo')
    ap.add_argument('--seed', default='0')
    ap.add_argument('--summary-only', action='store_true')
    a = ap.parse_args()
    if a.summary_only:
        return write_summary()
    scratch = a.scratch
    sh(f'git -C /repo worktree remove --force {scratch}')
    rc, out = sh(f'git -C /repo worktree add --detach {scratch} HEAD')
    if rc != 0:
        print(out)
        return 2
    ev_dir, rp_dir = scratch+'_evidence', scratch+'_replays'
    env = dict(VERIF_REPO=scratch, VERIF_EVIDENCE_DIR=ev_dir, VERIF_REPLAY_DIR=rp_dir, VERIF_SEED=a.seed)
    rows = []
    try:
        for d in sorted(glob.glob(os.path.join(VERIF, 'seeded', '*'))):
            if not os.path.isdir(d) or not os.path.exists(os.path.join(d, 'patch.diff')):
                continue
            sid = os.path.basename(d)
            if a.only and a.only not in sid:
                continue
            meta = json.load(open(os.path.join(d, 'meta.json'))) if os.path.exists(os.path.join(d, 'meta.json')) else {}
            prop = meta.get('property') or re.sub(r'^self_', '', sid).split('_')[0].upper()
            checks = ALL if a.all_checks else [prop]+[c for c in ALSO.get(prop, [])]
            rc, out = sh(f'git apply {d}/patch.diff', cwd=scratch)
            if rc != 0:
                rows.append((sid, prop, 'patch does not apply', {}))
                continue
            res = {}
            try:
                for c in checks:
                    shutil.rmtree(rp_dir, ignore_errors=True)
                    t = time.time()
                    rc, out = sh(f'/verif/.venv/bin/python -m checks.run {c} --tier {a.tier}', env=env, cwd=VERIF)
                    viol = re.findall(r'VIOLATION property=(\S+) replay=(\S+)', out)
                    status = 'CAUGHT' if rc == 1 and viol else ('harness-error' if rc == 2 else ('missed' if rc == 0 else f'exit {rc}'))
                    kinds = []
                    for _, path in viol[:40]:
                        try:
                            r = json.load(open(path))
                            k = f"{r['check']}:{r['signature'].get('kind')}"
                            if k not in kinds:
                                kinds.append(k)
                        except Exception:  # noqa
                            pass
                    res[c] = dict(status=status, exit=rc, violation_lines=len(viol), kinds=kinds[:6], wall_s=round(time.time()-t, 1),
                                  last_line=out.strip().split('\n')[-1][:240])
                    print(f'{sid}: {c}: {status} ({len(viol)} lines, {time.time()-t:.0f}s) {kinds[:3]}', flush=True)
            finally:
                sh('git checkout -- .', cwd=scratch)
            json.dump(dict(id=sid, property=prop, tier=a.tier, seed=a.seed, repo_head=sh('git -C /repo rev-parse --short HEAD')[1].strip(),
                           verif_head=sh(f'git -C {VERIF} rev-parse --short HEAD')[1].strip(), checks=res),
                      open(os.path.join(d, 'result.json'), 'w'), indent=1)
            rows.append((sid, prop, None, res))
    finally:
        sh(f'git -C /repo worktree remove --force {scratch}')
        shutil.rmtree(ev_dir, ignore_errors=True)
        shutil.rmtree(rp_dir, ignore_errors=True)
    return write_summary()


def write_summary():
    # summary over all result.json files present
    lines = ['# Seeded changes vs. checks', '',
             'Each row: a change to jbussemaker/adsg-core that breaks the named property while the pinned test suite still passes '
             '(confirmed in a scratch worktree), and what the quick tier of the checks says when the change is applied '
             '(`tools/sweep_seeded.py`, scratch copy of the repository; /repo is never modified).', '',
             '| seeded change | property | what it needs to manifest | check results |', '|---|---|---|---|']
    for d in sorted(glob.glob(os.path.join(VERIF, 'seeded', '*'))):
        rj = os.path.join(d, 'result.json')
        if not os.path.exists(rj):
            continue
        r = json.load(open(rj))
        if 'checks' not in r:
            continue
        meta = json.load(open(os.path.join(d, 'meta.json'))) if os.path.exists(os.path.join(d, 'meta.json')) else {}
        needs = (meta.get('needs_to_manifest') or meta.get('summary') or '').replace('|', '/').replace('\n', ' ')[:220]
        cr = '; '.join(f"{c}: **{v['status']}**" + (f" ({', '.join(v['kinds'][:2])})" if v.get('kinds') else '') for c, v in r['checks'].items())
        lines.append(f"| {r.get('id', os.path.basename(d))} | {r.get('property', '')} | {needs} | {cr} |")
    open(os.path.join(VERIF, 'seeded', 'SUMMARY.md'), 'w').write('\n'.join(lines)+'\n')
    return 0


if __name__ == '__main__':
    sys.exit(main())
