"""
C10 - every connection encoder is a faithful, total and onto coding of connection sets (DESIGN.md section 4), and the
connection-variable part of C07 (activeness/imputation contract), which rides on the same exploration.

Per (encoder factory, imputer, settings, existence pattern with >= 1 valid matrix): a vector of n+e fresh unbounded
symbolic integers is pushed through the real `manager.get_matrix(vector, existence=pattern)`.
"""
import os
import copy
import itertools
import random
import numpy as np
import z3
from checks.common import *
from checks.connlib import *
from pools import conn as pool
from spec.conn import conn as C
from symx import *

PROP = 'C10'
META = dict(
    level='model_checking',
    functions=['adsg_core.optimization.assign_enc.assignment_manager.AssignmentManager.get_matrix',
               'adsg_core.optimization.assign_enc.assignment_manager.LazyAssignmentManager.get_matrix',
               'adsg_core.optimization.assign_enc.assignment_manager.AssignmentManagerBase._correct_is_active',
               'adsg_core.optimization.assign_enc.encoding.EagerEncoder.get_matrix / correct_vector_size / correct_vector_bounds / _correct_vector',
               'adsg_core.optimization.assign_enc.lazy_encoding.LazyEncoder.get_matrix / _get_validate_matrix',
               'every registered encoder\'s _decode* and every registered imputer\'s impute'],
    bounds=dict(declared_variables='<= 6', surplus_entries='0..2', vector_entries='any integer (unbounded)',
                settings='<= 3x3 connectors', paths_per_instance='estimated <= 2500 (quick) / <= 12000 (thorough); larger instances are listed as deferred',
                matrix_entries_onto='any non-negative integer'),
    outside=['instances with more than 6 declared variables or more than 20000 paths (skipped, listed)',
             'state carried between problems beyond the interference instances (auxiliary, concrete: settings B after settings A in one '
             'cache, manager A used again while manager B is alive, the encoder object of A serving B; <= 120 declared vectors per pattern)',
             'pattern encoders on settings they reject with InvalidPatternEncoder (documented)',
             'constraint-violation imputers: documented to return the all(-1) marker instead of a valid matrix; for them '
             'the obligation is "valid matrix or marker with the clamped vector" and onto-ness is not demanded',
             'random imputation (_allow_random_imputation is False)'],
    stubs=['numba kernels executed from .py_func while symbolic', 'np.sqrt on object arrays of concrete numbers computed on '
           'their float conversion (closest imputers)', 'XDG_CACHE_HOME redirected'],
    assumptions=['specification of valid connection sets as in spec/conn.py (decided against the real enumerator under C09)',
                 'a manager is deep-copied per path (its imputation caches mutate; state carried between calls is C05)'],
    explanation='bounded symbolic execution of the decode path of every registered encoder x imputer',
)
INSTANCE_CAP_S = 200
MAX_DV = 6
QUICK_PATH_BUDGET = 2500
THOROUGH_PATH_BUDGET = 12000


# ---------------------------------------------------------------------------------------------------------------------
# factories


def factory_table():
    from adsg_core.optimization.assign_enc import encoder_registry as reg
    out = []
    for i, f in enumerate(reg.EAGER_ENCODERS):
        out.append(('eager', i, f))
    for i, f in enumerate(reg.LAZY_ENCODERS):
        out.append(('lazy', i, f))
    for i, f in enumerate(reg.EAGER_ENUM_ENCODERS):
        out.append(('enum', i, f))
    for i, f in enumerate(reg.PATTERN_ENCODERS):
        out.append(('pattern', i, f))
    return out


def imputer_table(kind):
    from adsg_core.optimization.assign_enc import encoder_registry as reg
    return reg.EAGER_IMPUTERS if kind == 'eager' else reg.LAZY_IMPUTERS


def default_imputer_idx(kind):
    # AutoModImputer (eager) / LazyDeltaImputer (lazy)
    return 1 if kind == 'eager' else 1


def build_manager(kind, i_enc, i_imp, settings):
    """exactly what EncoderSelector._instantiate_manager does"""
    from adsg_core.optimization.assign_enc.assignment_manager import AssignmentManager, LazyAssignmentManager
    from adsg_core.optimization.assign_enc.lazy_encoding import LazyEncoder
    fac = [f for f in factory_table() if f[0] == kind and f[1] == i_enc][0][2]
    imp = imputer_table(kind)[i_imp]()
    encoder = fac(imp)
    cls = LazyAssignmentManager if isinstance(encoder, LazyEncoder) else AssignmentManager
    return cls(settings, encoder), encoder


# ---------------------------------------------------------------------------------------------------------------------
# pools


def pattern_settings():
    """one settings per pattern encoder in direct and transposed form (plus variants), written to match them"""
    mk = pool.mk
    out = [
        mk([C([1])], [C([0, 1]), C([0, 1]), C([0, 1])], name='combining 1x3'),
        mk([C([0, 1]), C([0, 1]), C([0, 1])], [C([1])], name='combining 3x1 (transposed)'),
        mk([C(min_=0)], [C(min_=1)], name='combining collapsed'),
        mk([C([0, 1, 2])], [C([1, 2])], name='combining collapsed lists'),
        mk([C(min_=0), C(min_=0)], [C(min_=0), C(min_=0)], name='assigning'),
        mk([C(min_=0, rep=False), C(min_=0, rep=False)], [C(min_=0, rep=False), C(min_=0, rep=False)], name='assigning non-repeatable'),
        mk([C(min_=1, rep=False), C(min_=1, rep=False)], [C(min_=0, rep=False), C(min_=0, rep=False)], name='assigning surjective src'),
        mk([C(min_=0, rep=False), C(min_=0, rep=False)], [C(min_=1, rep=False), C(min_=1, rep=False)], name='assigning surjective tgt'),
        mk([C(min_=0, rep=False), C(min_=0, rep=False)], [C([1]), C([1]), C([1])], name='partitioning 2x3'),
        mk([C([1]), C([1]), C([1])], [C(min_=0, rep=False), C(min_=0, rep=False)], name='partitioning transposed'),
        mk([C(min_=0, rep=False), C(min_=0, rep=False)], [C([1]), C([0, 1])], name='mixed 1 / 0..1 targets'),
        mk([C(min_=0, rep=False)], [C([0, 1]), C([0, 1]), C([0, 1])], name='down-selecting 1x3'),
        mk([C(min_=1, rep=False), C(min_=1, rep=False), C(min_=1, rep=False)], [C([0, 1]), C([0, 1]), C([0, 1])],
           name='partitioning covering optional 3x3'),
        mk([C(min_=1, rep=False), C(min_=1, rep=False)], [C([0, 1]), C([0, 1]), C([0, 1])], name='partitioning covering optional 2x3'),
        mk([C(min_=2, rep=False)], [C([1]), C([1]), C([1])], name='partitioning min 2 1x3'),
        mk([C(min_=2, rep=False), C(min_=2, rep=False)], [C([1]), C([1]), C([1]), C([1])], name='partitioning min 2 2x4 (the one settings beyond 3x3)'),
        mk([C(min_=0, rep=False), C(min_=0, rep=False), C(min_=0, rep=False)],
           [C(min_=0, rep=False), C(min_=0, rep=False), C(min_=0, rep=False)], excluded=[(0, 0), (1, 1), (2, 2)], name='connecting directed'),
        mk([C(min_=0, rep=True), C(min_=0, rep=False)], [C(min_=0, rep=False), C(min_=0, rep=True)], excluded=[(0, 0), (1, 1)],
           name='connecting 2x2 mixed repeatability'),
        mk([C(min_=0, rep=False), C(min_=0, rep=False)], [C(min_=0, rep=False), C(min_=0, rep=False)], excluded=[(0, 0), (1, 1)],
           name='connecting 2x2'),
        mk([C([1]), C([1]), C([1])], [C([1]), C([1]), C([1])], name='permuting 3x3'),
        mk([C([1]), C([1])], [C([1]), C([1])], name='permuting 2x2'),
        mk([C([1]), C([1]), C([1]), C([1])], [C([1]), C([1]), C([1]), C([1])], name='permuting 4x4 (beyond 3x3, pattern encoders only)'),
        mk([C([2])], [C([0, 1]), C([0, 1]), C([0, 1])], name='unordered combining 2 of 3'),
        mk([C([2])], [C(min_=0), C(min_=0), C(min_=0)], name='unordered combining with replacement'),
        mk([C([0, 2])], [C([1]), C([0, 1])], name='non-contiguous degree list'),
        mk([C(min_=1)], [C([0, 1, 2]), C([0, 1, 2, 3])], name='11 matrices (recursive enumeration: 1010b)'),
        mk([C(min_=0)], [C([0, 1, 2, 3]), C([0, 1, 2, 3, 4])], mcp=4, name='20 matrices (recursive enumeration: 10011b)'),
        mk([C(min_=0), C(min_=0), C(min_=0)], [C(min_=0)], mcp=2, name='27 matrices (recursive enumeration, exact power of 3)'),
        mk([C(min_=2), C(min_=2)], [C(min_=0), C(min_=0)], name='assigning min 2 repeatable'),
        mk([C(min_=0), C(min_=0)], [C(min_=2), C(min_=2)], name='assigning min 2 repeatable (targets)'),
        mk([C([1])], [C([1])], name='exactly one matrix'),
        mk([C([0, 1], rep=False)], [C([1, 2])], name='partitioning one source needs its only optional target (one matrix)'),
    ]
    # the same variable has more options in one existence pattern than in another, and is inactive only in the smaller
    # one (merging of per-pattern variables and of their conditionally-active flags)
    from spec.conn import pattern as _p
    out += [
        mk([C([1, 2], rep=False)], [C([0, 1], rep=False), C([0, 1], rep=False), C([0, 1], rep=False)],
           patterns=[_p(1, 3), _p(1, 3, tgt_absent=[2])], name='flag merge 1x3 third target conditional'),
        mk([C([0, 1], rep=False), C([0, 1], rep=False), C([0, 1], rep=False)], [C([1, 2], rep=False)],
           patterns=[_p(3, 1), _p(3, 1, src_absent=[0])], name='flag merge 3x1 first source conditional'),
        mk([C([1, 2]), C([0, 1])], [C([0, 1, 2]), C([0, 1])],
           patterns=[_p(2, 2), _p(2, 2, tgt_absent=[1]), _p(2, 2, src_override={0: [1]})], name='flag merge 2x2'),
        # existence patterns without any valid matrix next to ones with: the listing and the imputers meet vectors that
        # have no decode at all
        mk([C(min_=2, rep=False)], [C([1]), C([1]), C([1])],
           patterns=[_p(1, 3), _p(1, 3, tgt_override={2: [0, 1]}), _p(1, 3, tgt_override={2: [1, 3]}), _p(1, 3, tgt_absent=[0]),
                     _p(1, 3, src_override={0: [3, 4]}), _p(1, 3, src_override={0: [0, 2]}, tgt_override={2: [1]}), _p(1, 3, src_absent=[0])],
           name='undecodable vectors 1x3'),
    ]
    for s_ in out[-4:]:
        s_['keep_patterns'] = True
    return out


def settings_pool(tier, seed):
    rnd = random.Random(77+seed)
    out = pattern_settings()+[s for s in pool.named_settings() if s['name'] not in ('zero matrices',)]
    shapes = [(1, 2, 6), (2, 1, 4), (2, 2, 10), (2, 3, 3), (3, 2, 2), (1, 3, 3)] if tier == 'quick' else \
        [(1, 1, 4), (1, 2, 12), (2, 1, 12), (2, 2, 30), (2, 3, 8), (3, 2, 8), (1, 3, 8), (3, 1, 6), (3, 3, 3)]
    for ns, nt, n in shapes:
        for _ in range(n):
            out.append(pool.random_settings(rnd, ns, nt, p_excl=0.25, p_mcp=0.05))
    # fewer patterns per settings than C09: all present, one absent per side, one override per side
    for s in out:
        if s.get('keep_patterns'):
            continue
        pats = s['patterns']
        keep = [pats[0]]
        rest = pats[1:]
        rnd2 = random.Random(len(rest))
        rnd2.shuffle(rest)
        keep += rest[:3 if tier == 'quick' else 6]
        s['patterns'] = keep
    return out


def _simple_patterns(s):
    """all present + single absences (what conditional existence without grouping nodes produces)"""
    from spec.conn import pattern
    ns, nt = len(s['src']), len(s['tgt'])
    pats = [pattern(ns, nt)]
    pats += [pattern(ns, nt, tgt_absent=[j]) for j in range(nt) if nt > 1]
    pats += [pattern(ns, nt, src_absent=[i]) for i in range(ns) if ns > 1]
    return pats


def instances(tier, seed):
    rnd = random.Random(5+seed)
    spool = settings_pool(tier, seed)
    named = [s for s in spool if s.get('name')]
    rand = [s for s in spool if not s.get('name')]
    if tier == 'quick':
        small = lambda s_: len(s_['src'])*len(s_['tgt']) <= 4 and s_.get('name') not in ('any-any 2x2', 'any-any excluded', 'any-any diag excluded', 'assigning')  # noqa
        named_np = [s for s in named if small(s)]
        rand = [s for s in rand if small(s)]
    else:
        named_np = named
    facs = factory_table()
    out = []

    def add(k_s, s, kind, i_enc, i_imp):
        if kind == 'pattern':
            # pattern encoders reject settings in which any existence pattern leaves the pattern family; give them
            # the patterns conditional existence produces (single absences), in two variants
            s = dict(s)
            sp = _simple_patterns(s)
            s['patterns'] = sp[:1] if ((k_s+i_enc) % 2 == 0 or '2x4' in (s.get('name') or '') or '4x4' in (s.get('name') or '')) else sp[:3]
            if (s.get('name') or '').startswith('connecting'):
                # the connecting pattern needs as many sources as targets in every existence pattern
                from spec.conn import pattern as _pat
                n_ = len(s['src'])
                s['patterns'] = [sp[0], _pat(n_, n_, src_absent=[n_-1], tgt_absent=[n_-1])]
        out.append(dict(label=f'{k_s:04d} {kind}{i_enc} imp{i_imp} | {s.get("name") or ""} {pool.settings_label(s)} #{len(s["patterns"])}',
                        s=s, kind=kind, i_enc=i_enc, i_imp=i_imp))

    for f_idx, (kind, i_enc, _) in enumerate(facs):
        n_imp = len(imputer_table(kind))
        d = default_imputer_idx(kind)
        if tier == 'quick':
            if kind == 'pattern':
                for k_s, s in enumerate(named):
                    add(k_s, s, kind, i_enc, d)
                continue
            # 6 named settings with the default imputer (rotating), 3 with alternative imputers, 3 random settings
            picks = [named_np[(f_idx*5+t*7) % len(named_np)] for t in range(6)]
            for s in picks:
                add(spool.index(s), s, kind, i_enc, d)
            for t in range(3):
                s = named_np[(f_idx*3+t*11+1) % len(named_np)]
                add(spool.index(s), s, kind, i_enc, (d+1+t+f_idx) % n_imp)
            for t in range(3):
                s = rand[(f_idx*3+t) % len(rand)]
                add(spool.index(s), s, kind, i_enc, d if t else (d+2) % n_imp)
        else:
            for k_s, s in enumerate(spool):
                if kind == 'pattern':
                    add(k_s, s, kind, i_enc, d)
                    continue
                for i_imp in range(n_imp):
                    # all imputers on named settings, default + one rotating alternative on random ones
                    if s.get('name') or i_imp == d or i_imp == (k_s+i_enc) % n_imp:
                        add(k_s, s, kind, i_enc, i_imp)
    if tier == 'quick':
        # settings written for one encoder family are always run with that family
        for sub, kind_ in (('recursive enumeration', 'enum'), ('assigning min 2', 'pattern'), ('assigning min 2', 'lazy'),
                           ('partitioning', 'pattern'), ('11 matrices', 'eager'), ('connecting', 'pattern'), ('27 matrices', 'enum'),
                           ('flag merge', 'eager'), ('flag merge', 'lazy'), ('flag merge', 'enum')):
            for f_idx, (kind, i_enc, _) in enumerate(facs):
                if kind != kind_:
                    continue
                for s in named:
                    if sub in (s.get('name') or ''):
                        add(spool.index(s), s, kind, i_enc, default_imputer_idx(kind))
    if tier == 'quick':
        # the "first valid vector" imputer asks the encoder to decode vectors other imputers never try
        for f_idx, (kind, i_enc, _) in enumerate(facs):
            if kind == 'lazy':
                for s in named:
                    if 'undecodable vectors' in (s.get('name') or '') or 'non-contiguous degree list' in (s.get('name') or ''):
                        add(spool.index(s), s, kind, i_enc, 0)
    # interference pairs: every factory with three named settings and their variants (quick), six (thorough)
    small_named = [s_ for s_ in named if len(s_['src'])*len(s_['tgt']) <= 4]
    for f_idx, (kind, i_enc, _) in enumerate(facs):
        for t in range(len(small_named) if kind == 'pattern' else (3 if tier == 'quick' else 8)):
            # (pattern encoders reject most settings at once: all small named settings are offered to them)
            s_ = small_named[t] if kind == 'pattern' else small_named[(f_idx*7+t*5) % len(small_named)]
            if kind == 'pattern':
                s_ = dict(s_)
                s_['patterns'] = _simple_patterns(s_)[:1]
            else:
                s_ = dict(s_)
                s_['patterns'] = s_['patterns'][:3]
            for what, b in _variant_pairs(s_):
                out.append(dict(label=f'interference {kind}{i_enc} | {pool.settings_label(s_)} | {what}', c10_kind='interference',
                                s=s_, b=b, what=what, kind=kind, i_enc=i_enc, i_imp=default_imputer_idx(kind)))
    seen, uniq = set(), []
    for i_ in out:
        if i_['label'] not in seen:
            seen.add(i_['label'])
            uniq.append(i_)
    return uniq


# ---------------------------------------------------------------------------------------------------------------------


MAX_VIOL_PER_KIND = 2


def _viol(res, check, sig, config, inputs, observed, expected, prop=PROP):
    res['status'] = VIOLATION
    same = [v for v in res['violations'] if v['signature'].get('kind') == sig.get('kind') and v['signature'].get('pattern') == sig.get('pattern')]
    if len(same) >= MAX_VIOL_PER_KIND:
        return
    res['violations'].append(violation_record(prop, check, sig, config, inputs, observed, expected,
                                              replay_args=dict(check=check, config=config, inputs=inputs)))


def _enc_name(encoder):
    try:
        return repr(encoder)
    except Exception:  # noqa
        return type(encoder).__name__


def _plain(v):
    """inside a run: symbolic wrapper -> python int if pinned/constant, else the wrapper"""
    if isinstance(v, (SInt, SBool)):
        c = z3.simplify(v.e)
        if z3.is_int_value(c):
            return c.as_long()
        if z3.is_true(c):
            return True
        if z3.is_false(c):
            return False
        return v
    if isinstance(v, np.generic):
        return v.item()
    return v


def _plain_seq(a):
    if isinstance(a, np.ndarray):
        a = a.tolist()
    return [_plain_seq(x) if isinstance(x, (list, tuple, np.ndarray)) else _plain(x) for x in a]


def native_get_matrix(kind, i_enc, i_imp, s, k_pat, vector):
    settings, exist = pool.to_settings(s)
    mgr, enc = build_manager(kind, i_enc, i_imp, settings)
    x, act, m = mgr.get_matrix(list(vector), existence=exist[k_pat])
    return [int(v) for v in x], [bool(a) for a in act], np.array(m).tolist()


def native_get_conn_idx(kind, i_enc, i_imp, s, k_pat, vector):
    settings, exist = pool.to_settings(s)
    mgr, enc = build_manager(kind, i_enc, i_imp, settings)
    x, act, edges = mgr.get_conn_idx(list(vector), existence=exist[k_pat])
    return [int(v) for v in x], [bool(a) for a in act], (None if edges is None else [(int(a), int(b)) for a, b in edges])


def is_marker(m, ns, nt):
    a = np.array(m)
    return a.shape == (ns, nt) and a.size > 0 and bool(np.all(a == -1))


# ---------------------------------------------------------------------------------------------------------------------
# interference between problems (AUXILIARY, concrete): what a manager returns for settings B must not depend on
# settings A having been encoded before in the same cache, on another manager being alive, or on the encoder object
# having served other settings before


def _variant_pairs(s):
    import copy
    out = []
    for side in ('src', 'tgt'):
        b = copy.deepcopy(s)
        b[side][0]['rep'] = not b[side][0]['rep']
        out.append((f'{side}0 repeatability flipped', b))
    for side in ('src', 'tgt'):
        c0 = s[side][0]
        b = copy.deepcopy(s)
        if c0['conns'] is not None:
            b[side][0] = dict(conns=None, min=min(c0['conns']), rep=c0['rep'])
        else:
            b[side][0] = dict(conns=None, min=c0['min']+1, rep=c0['rep'])
        out.append((f'{side}0 other degrees', b))
    return out


def _decode_all(mgr, exist, n_opts, cap=120):
    out = []
    for k_pat, e in enumerate(exist):
        for v in itertools.islice(itertools.product(*[range(k_) for k_ in n_opts]), cap):
            try:
                x, act, m = mgr.get_matrix(list(v), existence=e)
                out.append((k_pat, list(v), [int(t) for t in x], [bool(t) for t in act], np.array(m).tolist()))
            except Exception as ex_:  # noqa
                out.append((k_pat, list(v), f'{type(ex_).__name__}: {ex_}'))
    try:
        lst = mgr.get_all_design_vectors()
        out.append(('listing', sorted((k_, sorted(np.array(lst[e]).tolist())) for k_, e in enumerate(exist) if e in lst)))
    except Exception as ex_:  # noqa
        out.append(('listing', f'{type(ex_).__name__}: {ex_}'))
    return out


def _run_interference(inst):
    from adsg_core.optimization.assign_enc.patterns.encoder import InvalidPatternEncoder
    from adsg_core.optimization.assign_enc.encoding import DetectedHighImpRatio
    a, b, kind, i_enc, i_imp = inst['s'], inst['b'], inst['kind'], inst['i_enc'], inst['i_imp']
    res = new_result(inst['label'])
    old = os.environ.get('XDG_CACHE_HOME')

    def build(s_):
        st, ex = pool.to_settings(s_)
        mgr, enc = build_manager(kind, i_enc, i_imp, st)
        return mgr, enc, ex, [dv.n_opts for dv in mgr.design_vars]

    def diff(x, y):
        for u, v in zip(x, y):
            if u != v:
                return dict(got=str(u)[:300], fresh=str(v)[:300])
        return dict(len=[len(x), len(y)])
    try:
        try:
            isolate_cache()
            mgr, enc, ex_b, nb = build(b)
            if len(nb) > MAX_DV or int(np.prod(nb, dtype=float)) > 600:
                res['notes'].append('too many declared vectors: skipped')
                return res
            ref_b = _decode_all(mgr, ex_b, nb)
            isolate_cache()
            mgr_a, enc_a, ex_a, na = build(a)
            ref_a = _decode_all(mgr_a, ex_a, na)
        except (InvalidPatternEncoder, DetectedHighImpRatio, RuntimeError) as e:
            res['notes'].append(f'{type(e).__name__}: the encoder does not take both settings (skipped)')
            return res
        cfg = dict(kind=kind, i_enc=i_enc, i_imp=i_imp, first=s_plain(a), second=s_plain(b), what=inst['what'])

        def strip_act(rec):
            out_ = []
            for r_ in rec:
                if r_ and r_[0] == 'listing':
                    out_.append(('listing', [(k_, sorted([max(v_, 0) for v_ in row] for row in rows)) for k_, rows in r_[1]] if isinstance(r_[1], list) else r_[1]))
                elif len(r_) == 5:
                    out_.append((r_[0], r_[1], r_[2], r_[4]))
                else:
                    out_.append(r_)
            return out_

        def check(what, got, ref):
            res['obligations'] += 1
            res['validated'] += 1
            if got != ref:
                res['status'] = VIOLATION
                only_act = strip_act(got) == strip_act(ref)  # vectors and matrices agree, activeness does not: C07
                res['violations'].append(violation_record(
                    'C07' if only_act else PROP, 'interference', dict(kind=f'interference:{what}', encoder=f'{kind}{i_enc}', variant=inst['what'],
                                               settings=pool.settings_label(b)), cfg, None, diff(got, ref),
                    'the same as on a fresh encoder in a fresh cache', replay_args=dict(check='interference', config=cfg)))
            else:
                res['discharged'] += 1
        # (1) A then B in the same cache (still the cache of the A run)
        mgr_b, enc_b, ex_b2, nb2 = build(b)
        check('other settings encoded before in the same cache', _decode_all(mgr_b, ex_b2, nb2), ref_b)
        # (2) manager A used again while manager B is alive
        check('another manager alive', _decode_all(mgr_a, ex_a, na), ref_a)
        # (3) the encoder object of A serves B
        isolate_cache()
        mgr_a2, enc_a2, _, _ = build(a)
        _decode_all(mgr_a2, ex_a, na)
        st_b, ex_b3 = pool.to_settings(b)
        try:
            mgr_b3 = type(mgr_a2)(st_b, enc_a2)
            got3 = _decode_all(mgr_b3, ex_b3, [dv.n_opts for dv in mgr_b3.design_vars])
        except Exception as e:  # noqa
            got3 = [f'{type(e).__name__}: {e}']
        check('encoder object reused for other settings', got3, ref_b)
    finally:
        if old is not None:
            os.environ['XDG_CACHE_HOME'] = old
    res['paths'] = 3
    res['sample'] = dict(harness='interference (auxiliary, concrete)', variant=inst['what'])
    return res


def run_instance(inst, tier='quick', seed=0):
    if inst.get('c10_kind') == 'interference':
        return _run_interference(inst)
    from adsg_core.optimization.assign_enc.patterns.encoder import InvalidPatternEncoder
    from adsg_core.optimization.assign_enc.encoding import DetectedHighImpRatio
    s, kind, i_enc, i_imp = inst['s'], inst['kind'], inst['i_enc'], inst['i_imp']
    res = new_result(inst['label'])
    ns, nt = len(s['src']), len(s['tgt'])
    cfg = dict(kind=kind, i_enc=i_enc, i_imp=i_imp, settings=s_plain(s))
    specs = [spec_of(s, p) for p in s['patterns']]
    n_valid_bf = [len(sp.brute_force(cap=4)) for sp in specs]
    has_valid = [n_ > 0 for n_ in n_valid_bf]
    # (exact if no per-pair limit exceeds the cap of the brute-force listing)
    single_matrix = all(n_ <= 1 for n_ in n_valid_bf) and all(l_ <= 4 for sp in specs for row in sp.limit for l_ in row)
    settings, exist = pool.to_settings(s)
    try:
        mgr, enc = build_manager(kind, i_enc, i_imp, settings)
    except InvalidPatternEncoder:
        res['notes'].append('InvalidPatternEncoder (skipped: documented)')
        res['status'] = HOLDS
        res['paths'] = 0
        return res
    except DetectedHighImpRatio:
        res['notes'].append('DetectedHighImpRatio (skipped)')
        return res
    except Exception as e:  # noqa: encoding a settings that admits a matrix must not fail
        import traceback
        if any(has_valid):
            _viol(res, 'encode', dict(kind='encode_raises', encoder=f'{kind}{i_enc}', exc=type(e).__name__, settings=pool.settings_label(s)),
                  cfg, None, f'{type(e).__name__}: {e}', 'encoder is set up (or InvalidPatternEncoder)')
            res['notes'].append(traceback.format_exc()[-600:])
        return res
    enc_name = _enc_name(enc)
    cfg['encoder'] = enc_name
    n = len(mgr.design_vars)
    n_opts = [dv.n_opts for dv in mgr.design_vars]
    if n > MAX_DV:
        res['status'] = SKIPPED
        res['notes'].append(f'outside the bound: {n} declared variables > {MAX_DV}')
        return res
    est = 1
    for k_ in n_opts:
        est *= (k_+2)  # per variable: below range, each value, above range
    n_pat = sum(has_valid)
    if tier == 'quick' and est*n_pat > QUICK_PATH_BUDGET:
        res['status'] = SKIPPED
        res['notes'].append(f'deferred to the thorough tier: ~{est*n_pat} paths estimated (> {QUICK_PATH_BUDGET})')
        return res
    if tier == 'thorough' and est*n_pat > THOROUGH_PATH_BUDGET:
        res['status'] = SKIPPED
        res['notes'].append(f'outside the thorough budget: ~{est*n_pat} paths estimated (> {THOROUGH_PATH_BUDGET})')
        return res
    is_cv = 'ConstraintViolation' in enc_name
    try:
        all_dvs = mgr.get_all_design_vectors()
    except Exception as e:  # noqa
        if not any(has_valid):  # no pattern admits a matrix: outside the statement of C10
            res['notes'].append(f'get_all_design_vectors raises {type(e).__name__} on settings without any valid matrix (not an obligation)')
            return res
        _viol(res, 'all_design_vectors', dict(kind='all_dv_raises', encoder=f'{kind}{i_enc}', exc=type(e).__name__, settings=pool.settings_label(s)),
              cfg, None, f'{type(e).__name__}: {e}', 'get_all_design_vectors returns')
        return res
    used_values = [set() for _ in range(n)]
    inactive_seen = [None for _ in range(n)]  # (pattern, corrected vector) in which variable i was reported inactive
    tracer = FuncTracer()

    for k_pat, pat in enumerate(s['patterns']):
        if not has_valid[k_pat]:
            continue
        spec = specs[k_pat]
        e = exist[k_pat]
        pl = pool.pattern_label(pat)
        n_extra = (k_pat % 3)  # surplus entries 0..2 rotate over the patterns
        names = [f'x{i}' for i in range(n+n_extra)]

        def run():
            vec = [sym_int(nm) for nm in names]
            m2 = copy.deepcopy(mgr)
            with symbolic_kernels():
                x, act, mat = m2.get_matrix(vec, existence=e)
            return _plain_seq(x), _plain_seq(act), _plain_seq(mat)

        if k_pat == 0:
            tracer.__enter__()
        try:
            # budgets: the quick tier only runs instances with an estimated <= QUICK_PATH_BUDGET paths; a run that needs far
            # more than its estimate (e.g. a clamp that no longer clamps makes the case split endless) is cut short
            if tier == 'quick':
                ex = explore(run, max_paths=max(400, 4*est), time_cap_s=90, fanout_cap=max(40, max(n_opts+[0])+3))
            else:
                ex = explore(run, max_paths=max(2000, 4*est), time_cap_s=INSTANCE_CAP_S, fanout_cap=200)
        finally:
            if k_pat == 0:
                tracer.__exit__()
        absorb(res, ex)
        if not ex.complete:
            if res['status'] == HOLDS:
                res['status'] = INCONCLUSIVE
            res['notes'].append(f'{pl}: {ex.status}')
            continue
        res['obligations'] += 1
        if ex.exhaustive():
            res['discharged'] += 1  # totality over Z^(n+e): every vector is on some path
        else:
            res['status'] = HARNESS_ERROR
            res['notes'].append('summary not exhaustive')
            continue

        xs = [z3.Int(nm) for nm in names]
        by_x = {}
        matrices = []
        sv = z3.Solver()
        for p in ex.paths:
            sv.push()
            sv.add(p.cond())
            assert str(sv.check()) == 'sat'
            mdl = sv.model()
            sv.pop()
            vec_c = [mdl.eval(x, model_completion=True).as_long() for x in xs]
            inp = dict(vector=vec_c, pattern=pl, k_pat=k_pat)
            sigb = dict(encoder=f'{kind}{i_enc}', imputer=i_imp, settings=pool.settings_label(s), pattern=pl)
            if p.kind == 'exc':
                # replay natively
                try:
                    native_get_matrix(kind, i_enc, i_imp, s, k_pat, vec_c)
                    res['status'] = HARNESS_ERROR
                    res['notes'].append(f'{pl}: symbolic run raised {p.exc!r} on {vec_c} but native run did not')
                except Exception as x_:  # noqa
                    _viol(res, 'decode', dict(kind='decode_raises', exc=type(x_).__name__, **sigb), cfg, inp,
                          f'{type(x_).__name__}: {x_}', 'valid matrix and corrected vector')
                continue
            x_out, act, mat = p.value
            if any(is_sym(v) for v in x_out) or any(is_sym(v) for v in act) or any(is_sym(v) for row in mat for v in (row if isinstance(row, list) else [row])):
                x_out = deep_eval(x_out, mdl)
                act = deep_eval(act, mdl)
                mat = deep_eval(mat, mdl)
                res['notes'].append(f'{pl}: symbolic output on a path (evaluated under one model)') if len(res['notes']) < 3 else None
            res['obligations'] += 1
            problems = []
            marker = is_marker(mat, ns, nt)
            if len(x_out) != n+n_extra or len(act) != n+n_extra:
                problems.append(f'vector length {len(x_out)}/{len(act)} for input length {n+n_extra}')
            else:
                for i in range(n):
                    if not (0 <= x_out[i] < n_opts[i]):
                        problems.append(f'x[{i}]={x_out[i]} outside 0..{n_opts[i]-1}')
                    if not act[i] and x_out[i] != 0:
                        problems.append(f'inactive x[{i}]={x_out[i]} != 0')
                for i in range(n, n+n_extra):
                    if act[i] or x_out[i] != 0:
                        problems.append(f'surplus entry {i}: value {x_out[i]} active {act[i]}')
            if marker:
                if not is_cv:
                    problems.append('all(-1) marker matrix from a correcting imputer')
            else:
                shape_ok = np.array(mat).shape == (ns, nt)
                if not shape_ok or not spec.holds(mat):
                    problems.append(f'matrix {mat} is not a valid matrix of the pattern')
            if problems:
                nat = None
                try:
                    nat = native_get_matrix(kind, i_enc, i_imp, s, k_pat, vec_c)
                except Exception as x_:  # noqa
                    nat = f'{type(x_).__name__}: {x_}'
                if nat == (x_out, act, mat) or (isinstance(nat, tuple) and nat[2] == mat and list(nat[0]) == list(x_out)):
                    _viol(res, 'decode', dict(kind='invalid_output', what=problems[0].split(' ')[0], **sigb), cfg, inp,
                          dict(x=x_out, active=act, matrix=mat, problems=problems), 'valid matrix, corrected vector in range')
                else:
                    res['status'] = HARNESS_ERROR
                    res['notes'].append(f'{pl}: path output {x_out, act, mat} != native {nat} on {vec_c}')
                continue
            res['discharged'] += 1
            res['validated'] += 1
            if marker:
                continue
            key = tuple(x_out[:n])
            by_x.setdefault(key, []).append((mat, act[:n], vec_c))
            matrices.append(mat)
            for i in range(n):
                if act[i]:
                    used_values[i].add(x_out[i])
                elif inactive_seen[i] is None:
                    inactive_seen[i] = (pl, k_pat, list(x_out[:n]), vec_c)

        listed = all_dvs.get(e)
        listed_rows = [] if listed is None else [[int(v) for v in row] for row in np.array(listed).tolist()]
        listed_keys = {tuple(0 if v == -1 else v for v in row[:n]): [v != -1 for v in row[:n]] for row in listed_rows}

        def cause_of(key_, act_a, act_b):
            """the eager direct-hit path returns the clamped input vector instead of the stored design vector, so
            variables that the stored vector marks inactive (-1) are reported active (known finding D1)"""
            la = listed_keys.get(tuple(key_))
            if kind == 'eager' and la is not None and (act_a == la or act_b == la):
                other_ = act_b if act_a == la else act_a
                if all(o or not l_ for o, l_ in zip(other_, la)) and other_ != la:
                    return 'eager_direct_hit_activeness'
            return 'other'

        # equal corrected vectors => equal matrices (C10) and equal activeness (C07)
        for key, lst in by_x.items():
            res['obligations'] += 1
            if any(m_ != lst[0][0] for m_, a_, _ in lst):
                other = [t for t in lst if t[0] != lst[0][0]][0]
                _viol(res, 'decode', dict(kind='same_vector_different_matrix', encoder=f'{kind}{i_enc}', imputer=i_imp,
                                          settings=pool.settings_label(s), pattern=pl), cfg,
                      dict(vector=lst[0][2], vector2=other[2], pattern=pl, k_pat=k_pat),
                      dict(x=list(key), first=[lst[0][0], lst[0][1]], second=[other[0], other[1]]), 'equal corrected vectors mean equal matrices')
            elif any(a_ != lst[0][1] for m_, a_, _ in lst):
                other = [t for t in lst if t[1] != lst[0][1]][0]
                _viol(res, 'decode', dict(kind='same_vector_different_activeness', encoder=f'{kind}{i_enc}', encoder_class=enc_name.split('(')[0],
                                          imputer=i_imp, settings=pool.settings_label(s), pattern=pl,
                                          cause=cause_of(key, lst[0][1], other[1])), cfg,
                      dict(vector=lst[0][2], vector2=other[2], pattern=pl, k_pat=k_pat),
                      dict(x=list(key), first=[lst[0][0], lst[0][1]], second=[other[0], other[1]]),
                      'the activeness reported for a corrected vector does not depend on the raw vector it came from', prop='C07')
            else:
                res['discharged'] += 1

        # round trip: decoding the corrected vector natively reproduces (x', active, M)
        for key, lst in list(by_x.items())[:300]:
            res['obligations'] += 1
            try:
                nat = native_get_matrix(kind, i_enc, i_imp, s, k_pat, list(key)+[0]*0)
            except Exception as x_:  # noqa
                nat = f'{type(x_).__name__}: {x_}'
            want = (list(key), lst[0][1], lst[0][0])
            if nat != want and isinstance(nat, tuple) and nat[0] == want[0] and nat[2] == want[2]:
                _viol(res, 'decode', dict(kind='fixed_point_activeness', encoder=f'{kind}{i_enc}', encoder_class=enc_name.split('(')[0], imputer=i_imp,
                                          settings=pool.settings_label(s), pattern=pl, cause=cause_of(key, nat[1], want[1])), cfg,
                      dict(vector=list(key), pattern=pl, k_pat=k_pat, first_input=lst[0][2]), dict(decode_of_corrected=nat), dict(first_decode=want), prop='C07')
            elif nat != want:
                _viol(res, 'decode', dict(kind='not_a_fixed_point', encoder=f'{kind}{i_enc}', imputer=i_imp,
                                          settings=pool.settings_label(s), pattern=pl), cfg,
                      dict(vector=list(key), pattern=pl, k_pat=k_pat, first_input=lst[0][2]), dict(decode_of_corrected=nat), dict(first_decode=want))
            else:
                res['discharged'] += 1
        # get_conn_idx: the edge list is the matrix, edge (i, j) repeated M[i][j] times, in row-major order
        for key, lst in list(by_x.items())[:60]:
            res['obligations'] += 1
            try:
                cx, ca, edges = native_get_conn_idx(kind, i_enc, i_imp, s, k_pat, list(key))
            except Exception as x_:  # noqa
                cx, ca, edges = None, None, f'{type(x_).__name__}: {x_}'
            want_edges = [(i, j) for i in range(ns) for j in range(nt) for _ in range(lst[0][0][i][j])]
            if edges != want_edges or cx != list(key):  # (activeness is the subject of the C07 obligations)
                _viol(res, 'decode', dict(kind='conn_idx_vs_matrix', encoder=f'{kind}{i_enc}', imputer=i_imp, settings=pool.settings_label(s), pattern=pl), cfg,
                      dict(vector=list(key), pattern=pl, k_pat=k_pat), dict(get_conn_idx=[cx, ca, edges]), dict(matrix=lst[0][0], edges=want_edges))
            else:
                res['discharged'] += 1

        if is_cv:
            continue

        # listed design vectors == corrected vectors (with activeness)
        res['obligations'] += 1
        got_keys = {k_: v[0][1] for k_, v in by_x.items()}
        if listed_keys != got_keys:
            missing = [k_ for k_ in got_keys if k_ not in listed_keys]
            extra = [k_ for k_ in listed_keys if k_ not in got_keys]
            diff_act = [k_ for k_ in got_keys if k_ in listed_keys and listed_keys[k_] != got_keys[k_]]
            if diff_act:
                # activeness of a listed vector differs from what decoding reports for it: C07 (whatever else is wrong)
                example = diff_act[0]
                _viol(res, 'all_design_vectors', dict(kind='all_dv_activeness', encoder=f'{kind}{i_enc}', encoder_class=enc_name.split('(')[0], imputer=i_imp,
                                                      settings=pool.settings_label(s), pattern=pl, cause=cause_of(example, got_keys.get(example), listed_keys.get(example))), cfg,
                      dict(pattern=pl, k_pat=k_pat, vector=list(example)),
                      dict(corrected_vectors=len(got_keys), listed=len(listed_keys), example=list(example),
                           decode_active=got_keys.get(example), listed_active=listed_keys.get(example)),
                      'get_all_design_vectors()[pattern] == set of corrected vectors, -1 exactly where inactive', prop='C07')
                # ... and C10: the listed vectors carry -1 at inactive positions, so a listed vector whose marking differs
                # from what decoding reports for the same values is not one of "these corrected vectors"
                _viol(res, 'all_design_vectors', dict(kind='all_dv_inactive_marking', encoder=f'{kind}{i_enc}', encoder_class=enc_name.split('(')[0], imputer=i_imp,
                                                      settings=pool.settings_label(s), pattern=pl, cause=cause_of(example, got_keys.get(example), listed_keys.get(example))), cfg,
                      dict(pattern=pl, k_pat=k_pat, vector=list(example)),
                      dict(corrected_vectors=len(got_keys), listed=len(listed_keys), example=list(example),
                           decode_active=got_keys.get(example), listed_active=listed_keys.get(example)),
                      'get_all_design_vectors()[pattern] == set of corrected vectors, -1 exactly where inactive')
            if missing or extra:
                what = 'not_listed' if missing else 'listed_not_reached'
                example = (missing or extra)[0]
                _viol(res, 'all_design_vectors', dict(kind=f'all_dv_{what}', encoder=f'{kind}{i_enc}', encoder_class=enc_name.split('(')[0], imputer=i_imp,
                                                      settings=pool.settings_label(s), pattern=pl, cause='other'), cfg,
                      dict(pattern=pl, k_pat=k_pat, vector=list(example)),
                      dict(corrected_vectors=len(got_keys), listed=len(listed_keys), example=list(example),
                           decode_active=got_keys.get(example), listed_active=listed_keys.get(example)),
                      'get_all_design_vectors()[pattern] == set of corrected vectors, -1 exactly where inactive')
        else:
            res['discharged'] += 1

        # onto: every valid matrix (entries unbounded) is the decode of some vector
        T = [[z3.Int(f'on_{i}_{j}') for j in range(nt)] for i in range(ns)]
        pre = [T[i][j] >= 0 for i in range(ns) for j in range(nt)]
        prover = Prover(res)
        uniq = []
        for m_ in matrices:
            if m_ not in uniq:
                uniq.append(m_)
        r, model = prover.refute(pre, z3.And(spec.formula(T), z3.Not(member_formula(T, uniq))))
        if r == 'sat':
            mm = model_matrix(model, T)
            # native confirmation: the real validator accepts it and no declared vector decodes to it
            from adsg_core.optimization.assign_enc.matrix import AggregateAssignmentMatrixGenerator
            gen = AggregateAssignmentMatrixGenerator(settings)
            ok = bool(gen.validate_matrix(np.array(mm), existence=e))
            reach = False
            if ok:
                for v in itertools.islice(itertools.product(*[range(k_) for k_ in n_opts]), 50000):
                    try:
                        if native_get_matrix(kind, i_enc, i_imp, s, k_pat, list(v))[2] == mm:
                            reach = True
                            break
                    except Exception:  # noqa
                        pass
            if ok and not reach:
                _viol(res, 'onto', dict(kind='matrix_not_reachable', encoder=f'{kind}{i_enc}', imputer=i_imp,
                                        settings=pool.settings_label(s), pattern=pl), cfg,
                      dict(pattern=pl, k_pat=k_pat, matrix=mm), dict(reachable=len(uniq)), 'every valid matrix is the decode of some vector')
            else:
                res['status'] = HARNESS_ERROR
                res['notes'].append(f'{pl}: onto model {mm} does not reproduce (validator {ok}, reachable {reach})')
        elif r != 'unsat':
            if res['status'] == HOLDS:
                res['status'] = INCONCLUSIVE
            res['notes'].append(f'onto query {r}')
        # vacuity twin
        if prover.satisfiable(*pre, spec.formula(T)) != 'sat':
            res['status'] = HARNESS_ERROR
            res['notes'].append('vacuous: specification unsatisfiable for a pattern with valid matrices')

        if res['sample'] is None and len(ex.paths) > 1:
            res['sample'] = dict(encoder=enc_name, settings=pool.settings_label(s), pattern=pl, declared=n_opts, surplus=n_extra,
                                 paths=len(ex.paths), corrected_vectors=len(by_x), matrices=len(uniq),
                                 example_path=dict(pc=str(ex.paths[0].pc)[:300], out=str(ex.paths[0].value)[:200]))

    # C07: a variable that is not flagged conditionally active is active in every valid design
    if not is_cv:
        for i, dv in enumerate(mgr.design_vars):
            res['obligations'] += 1
            if inactive_seen[i] is not None and not dv.conditionally_active:
                pl_, kp_, xo_, vc_ = inactive_seen[i]
                _viol(res, 'decode', dict(kind='inactive_but_not_flagged_conditional', encoder=f'{kind}{i_enc}', encoder_class=enc_name.split('(')[0],
                                          settings=pool.settings_label(s), pattern=pl_, var=i), cfg,
                      dict(vector=vc_, pattern=pl_, k_pat=kp_), dict(x=xo_, inactive_variable=i, conditionally_active=False),
                      'a variable reported inactive in some valid design is flagged conditionally active', prop='C07')
            else:
                res['discharged'] += 1

    # every declared variable has at least two used values (over all patterns of the settings)
    if not is_cv and res['status'] == HOLDS and all(has_valid):
        for i in range(n):
            res['obligations'] += 1
            if len(used_values[i]) < 2:
                _viol(res, 'declared', dict(kind='variable_with_one_value', encoder=f'{kind}{i_enc}', encoder_class=enc_name.split('(')[0],
                                            encoder_kind=kind, settings=pool.settings_label(s), var=i,
                                            cause='every_pattern_has_one_valid_matrix' if single_matrix else 'other'),
                      cfg, dict(var=i), dict(used=sorted(used_values[i]), n_opts=n_opts[i]), '>= 2 used values per declared variable')
            else:
                res['discharged'] += 1
    res['functions'] = sorted(tracer.names)
    return res


def s_plain(s):
    return dict(src=s['src'], tgt=s['tgt'], excluded=[list(e) for e in s['excluded']], mcp=s.get('mcp'),
                patterns=s['patterns'], name=s.get('name'))


def _restore(s):
    s = dict(s)
    s['excluded'] = [tuple(e) for e in s['excluded']]
    for p in s['patterns']:
        p['src_override'] = {int(k): v for k, v in p['src_override'].items()}
        p['tgt_override'] = {int(k): v for k, v in p['tgt_override'].items()}
    return s


def replay(rec):
    a = rec['replay_args']
    if a.get('check') == 'interference':
        cfg = a['config']
        r2 = _run_interference(dict(label='replay', s=_restore(cfg['first']), b=_restore(cfg['second']), what=cfg['what'],
                                    kind=cfg['kind'], i_enc=cfg['i_enc'], i_imp=cfg['i_imp']))
        for v in r2['violations']:
            print(v['signature']['kind'], v['observed'])
        return bool(r2['violations'])
    cfg, inp = a['config'], a['inputs'] or {}
    s = _restore(cfg['settings'])
    kind, i_enc, i_imp = cfg['kind'], cfg['i_enc'], cfg['i_imp']
    print(f'encoder {cfg.get("encoder")} settings {pool.settings_label(s)}')
    if a['check'] == 'encode':
        try:
            settings, exist = pool.to_settings(s)
            build_manager(kind, i_enc, i_imp, settings)
            return False
        except Exception as e:  # noqa
            print('raises', type(e).__name__, e)
            return type(e).__name__ != 'InvalidPatternEncoder'
    k_pat = inp.get('k_pat', 0)
    spec = spec_of(s, s['patterns'][k_pat])
    if a['check'] == 'decode':
        try:
            out = native_get_matrix(kind, i_enc, i_imp, s, k_pat, inp['vector'])
        except Exception as e:  # noqa
            print(f'get_matrix({inp["vector"]}, pattern {inp.get("pattern")}) raises {type(e).__name__}: {e}')
            return True
        print(f'get_matrix({inp["vector"]}, pattern {inp.get("pattern")}) -> {out}; matrix valid: {spec.holds(out[2]) if np.array(out[2]).shape == (len(s["src"]), len(s["tgt"])) else False}')
        if 'vector2' in inp:
            out2 = native_get_matrix(kind, i_enc, i_imp, s, k_pat, inp['vector2'])
            print(f'get_matrix({inp["vector2"]}) -> {out2}')
            return out[0] == out2[0] and (out[1:] != out2[1:])
        if rec['signature']['kind'] == 'not_a_fixed_point':
            first = native_get_matrix(kind, i_enc, i_imp, s, k_pat, inp['first_input'])
            print(f'first decode of {inp["first_input"]} -> {first}')
            return out != first
        return True
    if a['check'] == 'all_design_vectors':
        settings, exist = pool.to_settings(s)
        mgr, _ = build_manager(kind, i_enc, i_imp, settings)
        listed = mgr.get_all_design_vectors().get(exist[k_pat])
        out = native_get_matrix(kind, i_enc, i_imp, s, k_pat, inp['vector'])
        print(f'listed: {None if listed is None else np.array(listed).tolist()}\ndecode {inp["vector"]} -> {out}')
        return True
    if a['check'] == 'onto':
        settings, exist = pool.to_settings(s)
        mgr, _ = build_manager(kind, i_enc, i_imp, settings)
        n_opts = [dv.n_opts for dv in mgr.design_vars]
        mm = inp['matrix']
        reach = any(native_get_matrix(kind, i_enc, i_imp, s, k_pat, list(v))[2] == mm for v in itertools.product(*[range(k_) for k_ in n_opts]))
        print(f'matrix {mm}: spec {spec.holds(mm)}, validate_matrix {bool(mgr.matrix_gen.validate_matrix(np.array(mm), existence=exist[k_pat]))}, reachable from a declared vector: {reach}')
        return spec.holds(mm) and not reach
    if a['check'] == 'declared':
        return True
    return False
