"""
C11 - connection choices respect connectors in every existence scenario (DESIGN.md section 4).

  scenario   per DSG template with connection choices and per selection scenario (every row of the complete encoder's
             enumeration): the connectors present and the exclusion edges are read from the *instance graph*; Spec(M) is
             built from them (spec/conn.py); compared by solver queries over unbounded integer matrices with
               (a) the processor view: existence pattern of `get_assignment_encoding_args` + enumerated matrices + mask
               (b) the graph view: `iter_conn_edges(instance)` and the summary V_b of the real `_validate_matrix` on the
                   generator `_get_matrix_gen(instance)` builds
  grouping   real ConnectorDegreeGroupingNode.get_combined_deg / ConnectorNode.is_valid / to_assign_node with member
             degrees and the queried degree symbolic
  connector  real ConnectorNode.__init__ / is_valid with symbolic deg_min, deg_max, degree
"""
import math
import itertools
import numpy as np
import z3
from checks.common import *
from checks.connlib import *
from pools import dsg as dsg_pool
from spec.conn import conn as C, ConnSpec
from symx import *

PROP = 'C11'
META = dict(
    level='model_checking',
    functions=['adsg_core.optimization.assign_enc.matrix._validate_matrix / _check_conns (py_func) on the settings produced by '
               'ConnectionChoiceNode._get_assign_nodes / get_assignment_encoding_args',
               'adsg_core.graph.adsg_nodes.ConnectorNode.__init__ / is_valid',
               'adsg_core.graph.adsg_nodes.ConnectorDegreeGroupingNode.get_combined_deg',
               'adsg_core.graph.adsg_nodes.ConnectionChoiceNode.to_assign_node', 'adsg_core.optimization.assign_enc.matrix.Node.__init__'],
    bounds=dict(templates='hand-written DSG templates (pools/dsg.py): <= 3x3 connectors, <= 3 selection choices, <= 24 scenarios',
                matrices='entries any non-negative integer (unbounded)', grouping='<= 2 members with degrees 0..3 symbolic, 3 members with degrees 0..2 symbolic; queried degree any integer',
                connector='deg_min, deg_max, degree any integers'),
    outside=['graphs other than the templates (graph-structure quantifier)',
             'the parallel-connection cap P is taken from the library\'s own effective settings per view (it is a library '
             'parameter, decided against its documentation under C09); required: P >= 1 and, where no explicit cap, >= 2',
             'whether a GROUPING connector may connect repeatedly to the same counterpart is taken from the view under test (two '
             'connections of a group to one target can be one connection of each of two members; the property does not fix it). '
             'Observed: the processor view derives it from all members of the full graph, the graph view from the members present',
             '"applying a set yields an instance with precisely those connection edges" is a concrete auxiliary check, not a solver verdict'],
    stubs=['EncoderSelector.get_best_assignment_manager -> default lazy encoder', 'numba kernels executed from .py_func while symbolic',
           'histories: all scenario instances are derived before any is examined; one processor decodes <= 36 listed designs in order and in reverse (auxiliary, concrete)',
           'XDG_CACHE_HOME redirected'],
    assumptions=['connector semantics as documented: allowed degrees = list or range; grouping connector = sums of present '
                 'members; repeated connections allowed iff both ends allow them (a grouping connector allows them if any '
                 'present member does)'],
    explanation='bounded symbolic execution of the validity kernel on the settings the graph layer produces, per scenario',
)
INSTANCE_CAP_S = 240


def instances(tier, seed):
    out = []
    for name in dsg_pool.CONN_TEMPLATES:
        out.append(dict(label=f'scenario {name}', kind='scenario', template=name))
    # two models that differ in one connector flag, evaluated one after the other in one process and cache directory
    out.append(dict(label='scenario_pair conn_rep_a then conn_rep_b', kind='scenario_pair', templates=['conn_rep_a', 'conn_rep_b']))
    out.append(dict(label='scenario_pair conn_rep_b then conn_rep_a', kind='scenario_pair', templates=['conn_rep_b', 'conn_rep_a']))
    kinds = ['list', 'range', 'open']
    ks = [1, 2] if tier == 'quick' else [1, 2, 3]
    for k in ks:
        for combo in itertools.combinations_with_replacement(kinds, k):
            for cond in (False, True):
                out.append(dict(label=f'grouping {"+".join(combo)} cond={cond}', kind='grouping', members=list(combo), cond=cond))
    out.append(dict(label='connector range', kind='connector'))
    out.append(dict(label='connector list', kind='connector_list'))
    if tier == 'thorough':
        out.append(dict(label='crosshair second opinion: connector', kind='crosshair', kernel='connector'))
    return out


def _viol(res, check, sig, config, inputs, observed, expected):
    res['status'] = VIOLATION
    same = [v for v in res['violations'] if v['signature'].get('kind') == sig.get('kind')]
    if len(same) >= 3:
        return
    res['violations'].append(violation_record(PROP, check, sig, config, inputs, observed, expected,
                                              replay_args=dict(check=check, config=config, inputs=inputs)))


def run_instance(inst, tier='quick', seed=0):
    res = new_result(inst['label'])
    with FuncTracer() as tr:
        globals()[f'_run_{inst["kind"]}'](inst, res)
    res['functions'] = sorted(tr.names)[:80]
    return res


# ---------------------------------------------------------------------------------------------------------------------
# reading an instance graph (independent of the library's existence analysis)


def _edge_type(data):
    from adsg_core.graph.graph_edges import EdgeType
    return data.get('type')


def _members(graph, grp):
    from adsg_core import ConnectorNode
    from adsg_core.graph.graph_edges import EdgeType
    out = []
    for u, v, k, d in graph.in_edges(grp, keys=True, data=True):
        if d.get('type') == EdgeType.DERIVES and isinstance(u, ConnectorNode):
            out.append(u)
    return out


def _own_degrees(cn):
    """('list', [...]) | ('min', m) from the attributes of a plain connector node"""
    if cn.deg_list is not None:
        return 'list', sorted(set(int(x) for x in cn.deg_list))
    if cn.deg_max == math.inf:
        return 'min', int(cn.deg_min)
    return 'list', list(range(int(cn.deg_min), int(cn.deg_max)+1))


def _minkowski(degs):
    if any(d[0] == 'min' for d in degs):
        return 'min', sum(d[1] if d[0] == 'min' else min(d[1]) for d in degs)
    sums = {0}
    for d in degs:
        sums = {a+b for a in sums for b in d[1]}
    return 'list', sorted(sums)


def connector_view(graph, cn):
    """degree set and repeatability of a connector as present in this graph; None if it is not part of the graph"""
    from adsg_core import ConnectorDegreeGroupingNode
    if cn not in graph.nodes:
        return None
    if isinstance(cn, ConnectorDegreeGroupingNode):
        mem = _members(graph, cn)
        if not mem:
            return None
        deg = _minkowski([_own_degrees(m) for m in mem])
        rep = any(m.repeated_allowed for m in mem)
    else:
        deg = _own_degrees(cn)
        rep = bool(cn.repeated_allowed)
    return deg, rep


def excluded_pairs(graph, srcs, tgts):
    from adsg_core.graph.graph_edges import EdgeType
    out = []
    for i, s in enumerate(srcs):
        if s not in graph.nodes:
            continue
        for u, v, k, d in graph.out_edges(s, keys=True, data=True):
            if d.get('type') == EdgeType.EXCLUDES and v in tgts:
                out.append((i, tgts.index(v)))
    return out


def spec_from_graph(graph, srcs, tgts, parallel, group_rep=None):
    """ConnSpec over the given connector lists; a connector that is absent from the graph gets degree {0}.
    group_rep: {grouping node: bool} - whether the library's view lets a grouping connector connect repeatedly to the
    same counterpart. For a group this is not fixed by the property (two connections of the group to one target can be
    one connection of each of two members): it is taken from the view under test, like the parallel cap."""
    from adsg_core import ConnectorDegreeGroupingNode

    def mk(cn):
        v = connector_view(graph, cn)
        if v is None:
            return C([0], rep=True), True
        deg, rep = v
        if group_rep is not None and isinstance(cn, ConnectorDegreeGroupingNode) and cn in group_rep:
            rep = bool(group_rep[cn])
        return (C(deg[1], rep=rep) if deg[0] == 'list' else C(min_=deg[1], rep=rep)), False
    s_c, t_c = [mk(c) for c in srcs], [mk(c) for c in tgts]
    pat = dict(src_override={i: [0] for i, (_, absent) in enumerate(s_c) if absent},
               tgt_override={j: [0] for j, (_, absent) in enumerate(t_c) if absent})
    return ConnSpec([c for c, _ in s_c], [c for c, _ in t_c], excluded_pairs(graph, srcs, tgts), pat, max_conn_parallel=parallel)


def build_instance(gp, row):
    """apply the selection choices of an enumeration row through the DSG API (not through the processor)"""
    from adsg_core import SelectionChoiceNode
    an = gp._hierarchy_analyzer
    sel_nodes = an.selection_choice_nodes
    idx = {n: i for i, n in enumerate(sel_nodes)}
    opt_nodes = an.selection_choice_option_nodes
    g = gp.graph
    while True:
        nxt = g.get_ordered_next_choice_nodes()
        if not nxt or not isinstance(nxt[0], SelectionChoiceNode):
            break
        c = nxt[0]
        o = row[idx[c]]
        if o < 0:
            raise RuntimeError('harness: active choice listed inactive')
        g = g.get_for_apply_selection_choice(c, opt_nodes[c][o])
    return g


def _matrix_of_edges(edges, srcs, tgts):
    m = [[0]*len(tgts) for _ in srcs]
    for a, b in edges:
        m[srcs.index(a)][tgts.index(b)] += 1
    return m


def _run_scenario_pair(inst, res):
    for name in inst['templates']:
        _run_scenario(dict(template=name), res)


def _run_scenario(inst, res):
    from adsg_core.optimization.assign_enc.matrix import NodeExistence
    from adsg_core.graph.graph_edges import EdgeType
    name = inst['template']
    gp, g0, info = dsg_pool.make_processor(name)
    an = gp._hierarchy_analyzer
    rows = an.get_choice_option_indices()
    if rows is None:
        res['status'] = HARNESS_ERROR
        res['notes'].append('no enumeration of selection scenarios')
        return
    rows = np.array(rows).reshape(-1, len(an.selection_choice_nodes)) if len(an.selection_choice_nodes) else np.zeros((1, 0), dtype=int)
    cfg = dict(template=name)
    feas_mask = gp._existence_infeasibility_mask
    all_x, _ = gp.get_all_discrete_x()
    # every scenario's instance is derived first, the (then older) instances are examined afterwards: what an instance
    # offers must not depend on which other instances were derived in the meantime
    all_insts = [build_instance(gp, row) for row in rows.tolist()]
    for i_comb, row in enumerate(rows.tolist()):
        inst_g = all_insts[i_comb]
        scen = dict(any_masked=False, any_spec_unsat=False, must_be_infeasible=False)
        for K in gp.connection_choice_nodes:
            mgr, node_map, exist_map, i_s, i_e, all_conn_nodes = gp._conn_choice_data_map[K]
            srcs, tgts = list(node_map[0]), list(node_map[1])
            present_K = K in inst_g.graph.nodes
            sig = dict(template=name, scenario=row, choice=str(K))
            if not present_K:
                continue
            gen = mgr.matrix_gen
            ns, nt = len(srcs), len(tgts)
            k_pat = int(exist_map[i_comb])

            # --- (a) processor view
            T = [[z3.Int(f'a_{i}_{j}') for j in range(nt)] for i in range(ns)]
            pre = [T[i][j] >= 0 for i in range(ns) for j in range(nt)]
            prover = Prover(res)
            grp_rep_a = {c_: n_.rep for c_, n_ in list(zip(srcs, gen.settings.src))+list(zip(tgts, gen.settings.tgt))}
            if k_pat == -1:
                offered_a = []
                par_a = None
                # the library says no valid connection set: the specification must be unsatisfiable for every cap >= 1
                spec_a = spec_from_graph(inst_g.graph, srcs, tgts, parallel=None, group_rep=grp_rep_a)
            else:
                pat = gen.existence_patterns.patterns[k_pat]
                eff, _, _ = pat.get_effective_settings(gen.settings)
                par_a = eff.get_max_conn_parallel()
                spec_a = spec_from_graph(inst_g.graph, srcs, tgts, parallel=par_a, group_rep=grp_rep_a)
                offered_a = [m.tolist() for m in gen.get_agg_matrix(cache=True)[pat]]
                if par_a < 2:
                    _viol(res, 'scenario', dict(kind='parallel_cap_below_2', **sig), cfg, dict(i_comb=i_comb), par_a, '>= 2')
            r, model = prover.refute(pre, spec_a.formula(T) != member_formula(T, offered_a))
            if r == 'sat':
                mm = model_matrix(model, T)
                # native confirmation
                ok_spec = spec_a.holds(mm)
                in_off = mm in offered_a
                val = bool(gen.validate_matrix(np.array(mm), existence=gen.existence_patterns.patterns[k_pat])) if k_pat != -1 else None
                if ok_spec != in_off:
                    _viol(res, 'scenario', dict(kind='processor_view_missing' if ok_spec else 'processor_view_extra', masked=k_pat == -1, **sig), cfg,
                          dict(i_comb=i_comb, matrix=mm, connectors=[str(c) for c in srcs+tgts]),
                          dict(offered=in_off, validate_matrix=val, masked=k_pat == -1, n_offered=len(offered_a)), dict(valid_for_present_connectors=ok_spec))
                else:
                    res['status'] = HARNESS_ERROR
                    res['notes'].append(f'(a) model {mm} does not reproduce')
            elif r != 'unsat' and res['status'] == HOLDS:
                res['status'] = INCONCLUSIVE
            # (a2) the validity test the decoders use for this scenario (pattern-level validate_matrix) == Spec
            if k_pat != -1:
                exa, Va, Ta, prea = summarise_validator(gen, pat, ns, nt, prefix='a', time_cap_s=60)
                absorb(res, exa)
                if not exa.complete:
                    if res['status'] == HOLDS:
                        res['status'] = INCONCLUSIVE
                    res['notes'].append(exa.status)
                else:
                    r, model = prover.refute(prea, Va != spec_a.formula(Ta))
                    if r == 'sat':
                        mm = model_matrix(model, Ta)
                        got = bool(gen.validate_matrix(np.array(mm), existence=pat))
                        if got != spec_a.holds(mm):
                            _viol(res, 'scenario', dict(kind='processor_view_validate_matrix', accepts=got, **sig), cfg,
                                  dict(i_comb=i_comb, matrix=mm, connectors=[str(c) for c in srcs+tgts]),
                                  dict(validate_matrix=got, offered=mm in offered_a), dict(valid_for_present_connectors=spec_a.holds(mm)))
                        else:
                            res['status'] = HARNESS_ERROR
                            res['notes'].append(f'(a2) model {mm} does not reproduce')
                    elif r != 'unsat' and res['status'] == HOLDS:
                        res['status'] = INCONCLUSIVE
            # masked <=> no valid set (solver: Spec unsatisfiable over all non-negative integer matrices)
            masked = (k_pat == -1)
            scen['any_masked'] = scen['any_masked'] or masked
            res['obligations'] += 1
            spec_sat = prover.satisfiable(*pre, spec_a.formula(T))
            scen['any_spec_unsat'] = scen['any_spec_unsat'] or spec_sat == 'unsat' 
            if spec_sat == 'unknown':
                if res['status'] == HOLDS:
                    res['status'] = INCONCLUSIVE
            elif (spec_sat == 'unsat') != masked:
                _viol(res, 'scenario', dict(kind='feasible_scenario_masked' if masked else 'infeasible_scenario_not_masked', **sig), cfg,
                      dict(i_comb=i_comb, connectors=[str(c) for c in srcs+tgts]), dict(masked=masked, exist_map=k_pat, n_offered=len(offered_a)),
                      dict(valid_connection_set_exists=spec_sat == 'sat'))
            else:
                res['discharged'] += 1

            # --- (b) graph view
            s_b = [c for c in inst_g.graph.predecessors(K) if c in srcs]
            t_b = [c for c in inst_g.graph.successors(K) if c in tgts]
            s_b.sort(key=srcs.index)
            t_b.sort(key=tgts.index)
            try:
                gen_b, node_map_b = K._get_matrix_gen(inst_g)
            except Exception as e:  # noqa
                _viol(res, 'scenario', dict(kind='graph_view_raises', **sig), cfg, dict(i_comb=i_comb), repr(e), 'generator')
                continue
            sb, tb = list(node_map_b[0]), list(node_map_b[1])
            par_b = gen_b.settings.get_max_conn_parallel()
            eff_b, _, _ = NodeExistence().get_effective_settings(gen_b.settings)
            par_b = eff_b.get_max_conn_parallel()
            grp_rep_b = {c_: n_.rep for c_, n_ in list(zip(sb, gen_b.settings.src))+list(zip(tb, gen_b.settings.tgt))}
            spec_b = spec_from_graph(inst_g.graph, sb, tb, parallel=par_b, group_rep=grp_rep_b)
            # without a grouping connector both views describe the same connectors with the same degrees: the number of
            # parallel connections they allow (a library parameter, read per view) has to be the same
            if 'group' not in name and par_a is not None:
                res['obligations'] += 1
                if par_a != par_b:
                    _viol(res, 'scenario', dict(kind='parallel_cap_views_differ', **sig), cfg, dict(i_comb=i_comb, connectors=[str(c) for c in sb+tb]),
                          dict(processor_view=par_a, graph_view=par_b), 'the same cap for the same present connectors')
                else:
                    res['discharged'] += 1
            try:
                offered_b = [_matrix_of_edges(edges, sb, tb) for edges in K.iter_conn_edges(inst_g)]
            except Exception as e:  # noqa
                _viol(res, 'scenario', dict(kind='iter_conn_edges_raises', **sig), cfg, dict(i_comb=i_comb), repr(e), 'edge sets')
                continue
            nsb, ntb = len(sb), len(tb)
            if set(sb) != set(s_b) or set(tb) != set(t_b):
                _viol(res, 'scenario', dict(kind='graph_view_connectors', **sig), cfg, dict(i_comb=i_comb),
                      dict(library=[str(c) for c in sb+tb]), dict(instance_graph=[str(c) for c in s_b+t_b]))
                continue
            exb, Vb, Tb, preb = summarise_validator(gen_b, None, nsb, ntb, prefix='b', time_cap_s=60)
            absorb(res, exb)
            if not exb.complete:
                if res['status'] == HOLDS:
                    res['status'] = INCONCLUSIVE
                res['notes'].append(exb.status)
                continue
            Sb = spec_b.formula(Tb)
            for what, lhs in (('iter_conn_edges', member_formula(Tb, offered_b)), ('validate_conn_edges', Vb)):
                r, model = prover.refute(preb, Sb != lhs)
                if r == 'sat':
                    mm = model_matrix(model, Tb)
                    ok_spec = spec_b.holds(mm)
                    if what == 'iter_conn_edges':
                        got = mm in offered_b
                    else:
                        edges = [(sb[i], tb[j]) for i in range(nsb) for j in range(ntb) for _ in range(mm[i][j])]
                        got = bool(K.validate_conn_edges(inst_g, edges))
                    if got != ok_spec:
                        _viol(res, 'scenario', dict(kind=f'graph_view_{what}', accepts=got, **sig), cfg,
                              dict(i_comb=i_comb, matrix=mm, connectors=[str(c) for c in sb+tb]), {what: got}, dict(valid_for_present_connectors=ok_spec))
                    else:
                        res['status'] = HARNESS_ERROR
                        res['notes'].append(f'(b) {what} model {mm} does not reproduce')
                elif r != 'unsat' and res['status'] == HOLDS:
                    res['status'] = INCONCLUSIVE
            # one model per path of V_b through the real (jitted) validate_conn_edges
            sv = z3.Solver()
            sv.add(*preb)
            for p in exb.paths[:200]:
                sv.push()
                sv.add(p.cond())
                if str(sv.check()) == 'sat':
                    mm = model_matrix(sv.model(), Tb)
                    want = p.value if not is_sym(p.value) else bool(z3.is_true(sv.model().eval(z3val(p.value), model_completion=True)))
                    # engine validation: the jitted kernel on the same generator
                    if bool(gen_b.validate_matrix(np.array(mm, dtype=int).reshape(nsb, ntb))) != bool(want):
                        res['status'] = HARNESS_ERROR
                        res['notes'].append(f'concolic mismatch on {mm}')
                    res['validated'] += 1
                    # property: validate_conn_edges (edge list -> matrix -> validator) accepts exactly the valid sets
                    if sum(sum(r_) for r_ in mm) <= 40:
                        edges = [(sb[i], tb[j]) for i in range(nsb) for j in range(ntb) for _ in range(mm[i][j])]
                        res['obligations'] += 1
                        got = bool(K.validate_conn_edges(inst_g, edges))
                        if got != spec_b.holds(mm):
                            _viol(res, 'scenario', dict(kind='graph_view_validate_conn_edges_native', accepts=got, **sig), cfg,
                                  dict(i_comb=i_comb, matrix=mm, connectors=[str(c) for c in sb+tb]), dict(validate_conn_edges=got),
                                  dict(valid_for_present_connectors=spec_b.holds(mm)))
                        else:
                            res['discharged'] += 1
                sv.pop()

            # --- views agree on feasibility; a masked scenario is never decoded to
            res['obligations'] += 1
            if (len(offered_a) == 0) != (len(offered_b) == 0):
                _viol(res, 'scenario', dict(kind='views_disagree_on_feasibility', **sig), cfg, dict(i_comb=i_comb),
                      dict(processor=len(offered_a), graph=len(offered_b)), 'both empty or both non-empty')
            else:
                res['discharged'] += 1
            if masked and len(gp.connection_choice_nodes) == 1:
                vec = [0 if v < 0 else v for v in np.array(row)[gp._sel_choice_idx_map].tolist()] if len(row) else []
                x = vec+[0]*(len(gp.des_vars)-len(vec))
                try:
                    _, x_imp, _ = gp.get_graph(x, create=False)
                    if [int(v) for v in x_imp[:len(vec)]] == vec and len(vec) > 0:
                        _viol(res, 'scenario', dict(kind='decoded_to_masked_scenario', **sig), cfg, dict(i_comb=i_comb, x=x), dict(x_imputed=list(x_imp)), 'another scenario or an error')
                except RuntimeError:
                    pass

            # --- auxiliary (concrete): applying an offered set yields exactly those connection edges and no choice node
            for edges0 in list(K.iter_conn_edges(inst_g))[:6]:
              edges0 = list(edges0)
              # the same set handed over in another order (a set has no order): as offered, reversed, interleaved
              for edges in (edges0, edges0[::-1], edges0[::2]+edges0[1::2]):
                g2 = inst_g.get_for_apply_connection_choice(K, edges)
                got_edges = sorted((str(u), str(v)) for u, v, k, d in g2.graph.edges(keys=True, data=True)
                                   if d.get('type') == EdgeType.CONNECTS and u in sb and v in tb)
                want_edges = sorted((str(a), str(b)) for a, b in edges)
                if len(gp.connection_choice_nodes) == 1 and not g2.feasible:
                    _viol(res, 'scenario', dict(kind='applied_set_infeasible', **sig), cfg, dict(i_comb=i_comb, edges=want_edges), dict(feasible=False), 'applying an offered set gives a feasible instance')
                if got_edges != want_edges or K in g2.graph.nodes:
                    _viol(res, 'scenario', dict(kind='apply_edges', **sig), cfg, dict(i_comb=i_comb, edges=[(str(a), str(b)) for a, b in edges]),
                          dict(edges=got_edges, choice_left=K in g2.graph.nodes), 'exactly those edges')
                    break
            # a connector that cannot stay unconnected while no counterpart connector exists at all: the instance with the
            # open connection choice must already report infeasible
            for side, other in ((s_b, t_b), (t_b, s_b)):
                if len(other) == 0:
                    for c_ in side:
                        v_ = connector_view(inst_g.graph, c_)
                        if v_ is not None and not (0 in v_[0][1] if v_[0][0] == 'list' else v_[0][1] <= 0):
                            scen['must_be_infeasible'] = True
            if res['sample'] is None:
                res['sample'] = dict(template=name, scenario=row, connectors_present=[str(c) for c in sb+tb], processor_pattern=k_pat,
                                     offered_processor=len(offered_a), offered_graph=len(offered_b), parallel_cap=[par_a, par_b],
                                     validator_paths=len(exb.paths))
        # --- scenario level: the design-space mask drops the scenario iff some connection choice has no valid set; the
        # instance's own feasibility flag never calls a scenario infeasible that has valid sets for every open choice
        sig_s = dict(template=name, scenario=row)
        res['obligations'] += 3
        if scen['any_masked'] != (not bool(feas_mask[i_comb])):
            _viol(res, 'scenario', dict(kind='design_space_mask', **sig_s), cfg, dict(i_comb=i_comb),
                  dict(some_choice_masked=scen['any_masked'], listed=bool(feas_mask[i_comb])), 'a scenario is listed iff every connection choice has a valid set')
        else:
            res['discharged'] += 1
        feas = bool(inst_g.feasible)
        if not feas and not scen['any_spec_unsat']:
            _viol(res, 'scenario', dict(kind='feasible_scenario_reported_infeasible', **sig_s), cfg, dict(i_comb=i_comb), dict(feasible=feas),
                  'every open connection choice has a valid connection set')
        else:
            res['discharged'] += 1
        if scen['must_be_infeasible'] and feas:
            _viol(res, 'scenario', dict(kind='unconnectable_connector_not_reported', **sig_s), cfg, dict(i_comb=i_comb), dict(feasible=feas),
                  'a connector that needs a connection has no counterpart at all: infeasible')
        else:
            res['discharged'] += 1
        n_listed = sum(1 for x_ in np.array(all_x).tolist() if [int(v) for v in x_[:len(gp._sel_choice_idx_map)]] ==
                       [0 if v < 0 else v for v in np.array(row)[gp._sel_choice_idx_map].tolist()]) if len(row) else len(all_x)
        if scen['any_masked'] and n_listed > 0 and len(row) > 0 and not any(v < 0 for v in row):
            _viol(res, 'scenario', dict(kind='masked_scenario_listed', **sig_s), cfg, dict(i_comb=i_comb), dict(rows=n_listed), 'no row for a masked scenario')

    # --- decode history (auxiliary, concrete): one processor decodes every listed design in order, then in reverse; each
    # instance must carry the connection edges a fresh processor gives for the same vector
    def conn_edges(gi):
        return sorted((str(u), str(v)) for u, v, k_, d in gi.graph.edges(keys=True, data=True) if d.get('type') == EdgeType.CONNECTS)
    xs = [list(map(float, x_)) for x_ in np.array(all_x).tolist()][:36]
    if len(gp.connection_choice_nodes) >= 1 and xs:
        fresh = []
        for x_ in xs:
            gp_f, _, _ = dsg_pool.make_processor(name)
            try:
                gi, xi, ai = gp_f.get_graph(list(x_))
                fresh.append((conn_edges(gi), [float(v) for v in xi], [bool(v) for v in ai]))
            except Exception as e_:  # noqa: a listed design has to decode
                fresh.append(f'{type(e_).__name__}: {e_}')
                _viol(res, 'scenario', dict(kind='listed_design_does_not_decode', template=name), cfg, dict(x=x_), fresh[-1], 'an instance')
        gp_h, _, _ = dsg_pool.make_processor(name)
        for order in (range(len(xs)), reversed(range(len(xs)))):
            for k_ in order:
                res['obligations'] += 1
                try:
                    gi, xi, ai = gp_h.get_graph(list(xs[k_]))
                    got = (conn_edges(gi), [float(v) for v in xi], [bool(v) for v in ai])
                except Exception as e_:  # noqa
                    got = f'{type(e_).__name__}: {e_}'
                if got != fresh[k_]:
                    _viol(res, 'scenario', dict(kind='decode_depends_on_history', template=name), cfg, dict(x=xs[k_]),
                          dict(decoded=got), dict(fresh_processor=fresh[k_]))
                else:
                    res['discharged'] += 1


# ---------------------------------------------------------------------------------------------------------------------
# grouping connector / connector construction


def _member(kind, i, cond_zero=False, hi=3):
    """a ConnectorNode whose degree data are symbolic (values 0..hi); returns (factory, pre, membership(d) formula)"""
    from adsg_core import ConnectorNode
    if kind == 'list':
        names = [f'g{i}_a', f'g{i}_b']
        vs = [z3.Int(n) for n in names]
        pre = [vs[0] >= 0, vs[0] <= hi, vs[1] >= 0, vs[1] <= hi]
        mk = lambda: ConnectorNode(f'M{i}', deg_list=[sym_int(names[0]), sym_int(names[1])])  # noqa
        mem = lambda d: z3.Or(d == vs[0], d == vs[1])  # noqa
        return mk, pre, mem
    if kind == 'range':
        names = [f'g{i}_lo', f'g{i}_hi']
        vs = [z3.Int(n) for n in names]
        pre = [vs[0] >= 0, vs[0] <= hi-1, vs[1] >= vs[0], vs[1] <= hi]
        mk = lambda: ConnectorNode(f'M{i}', deg_min=sym_int(names[0]), deg_max=sym_int(names[1]))  # noqa
        mem = lambda d: z3.And(d >= vs[0], d <= vs[1])  # noqa
        return mk, pre, mem
    names = [f'g{i}_min']
    vs = [z3.Int(n) for n in names]
    pre = [vs[0] >= 0, vs[0] <= hi]
    mk = lambda: ConnectorNode(f'M{i}', deg_min=sym_int(names[0]), deg_max=math.inf)  # noqa
    mem = lambda d: d >= vs[0]  # noqa
    return mk, pre, mem


def _run_grouping(inst, res):
    from adsg_core import ConnectorDegreeGroupingNode, ConnectionChoiceNode
    kinds, cond = inst['members'], inst['cond']
    parts = [_member(k, i, hi=3 if len(kinds) <= 2 else 2) for i, k in enumerate(kinds)]  # three members: degrees 0..2
    pre = [c for _, p, _ in parts for c in p]
    d = z3.Int('d')

    def run():
        members = [mk() for mk, _, _ in parts]
        grp = ConnectorDegreeGroupingNode('G')
        grp.deg_list, grp.deg_min, grp.deg_max = grp.get_combined_deg(members)
        grp.repeated_allowed = grp.get_repeated_allowed(members)
        valid = grp.is_valid(sym_int('d'))
        node = ConnectionChoiceNode.to_assign_node(grp, is_conditional=cond)
        conns = None if node.conns is None else [x if not is_sym(x) else x for x in node.conns]
        return valid, conns, node.min_conns
    ex = explore(run, pre=pre, max_paths=60000, time_cap_s=900 if len(kinds) > 2 else INSTANCE_CAP_S/2)
    absorb(res, ex)
    if not ex.complete:
        res['status'] = INCONCLUSIVE
        res['notes'].append(ex.status)
        return
    require_exhaustive(res, ex)
    # exists d_i: sum d_i = d and member_i accepts d_i
    ds = [z3.Int(f'dd{i}') for i in range(len(kinds))]
    exists = z3.Exists(ds, z3.And(z3.Sum(ds) == d, *[mem(ds[i]) for i, (_, _, mem) in enumerate(parts)], *[x >= 0 for x in ds]))
    for p in ex.paths:
        res['obligations'] += 1
        if p.kind == 'exc':
            s = z3.Solver()
            s.add(*pre)
            s.add(p.cond())
            if str(s.check()) == 'sat':
                _viol(res, 'grouping', dict(kind='raises', members=kinds), dict(members=kinds, cond=cond), dict(model=str(s.model())), repr(p.exc), 'degree set')
            continue
        valid, conns, min_conns = p.value
        v = z3val(valid) if is_sym(valid) else z3.BoolVal(bool(valid))
        # assignment node: same degree set, plus 0 iff conditional
        if conns is not None:
            node_mem = z3.Or(*[d == z3val(c) for c in conns]) if conns else z3.BoolVal(False)
        else:
            node_mem = d >= z3val(min_conns)
        want_node = z3.Or(exists, d == 0) if cond else exists
        if cond and conns is None:
            want_node = d >= 0  # documented: a conditional open-ended connector accepts "0 or more"
        s = z3.Solver()
        s.set('timeout', 20000)
        s.add(*pre)
        s.add(p.cond())
        s.add(z3.Or(v != exists, z3.And(d >= 0, node_mem != want_node)))
        r = str(s.check())
        res['solver_queries'] += 1
        if r == 'unsat':
            res['discharged'] += 1
        elif r == 'sat':
            m = s.model()
            vals = {str(x): m[x].as_long() for x in m.decls() if str(x).startswith('g') or str(x) == 'd'}
            nat = _native_grouping(kinds, vals, cond)
            if nat['is_valid'] != nat['exists'] or nat['node_accepts'] != nat['node_expected']:
                _viol(res, 'grouping', dict(kind='group_degree', members=kinds, cond=cond), dict(members=kinds, cond=cond), dict(values=vals), nat, 'sum of member degrees')
            else:
                res['status'] = HARNESS_ERROR
                res['notes'].append(f'model does not reproduce: {vals} {nat}')
        else:
            if res['status'] == HOLDS:
                res['status'] = INCONCLUSIVE
            res['notes'].append(f'solver {r}')
        res['validated'] += 1
    res['sample'] = dict(harness=inst['label'], paths=len(ex.paths))


def _native_grouping(kinds, vals, cond):
    from adsg_core import ConnectorNode, ConnectorDegreeGroupingNode, ConnectionChoiceNode
    members, sets = [], []
    for i, k in enumerate(kinds):
        if k == 'list':
            a, b = vals.get(f'g{i}_a', 0), vals.get(f'g{i}_b', 0)
            members.append(ConnectorNode(f'M{i}', deg_list=[a, b]))
            sets.append(lambda x, a=a, b=b: x in (a, b))
        elif k == 'range':
            lo, hi = vals.get(f'g{i}_lo', 0), vals.get(f'g{i}_hi', 0)
            members.append(ConnectorNode(f'M{i}', deg_min=lo, deg_max=hi))
            sets.append(lambda x, lo=lo, hi=hi: lo <= x <= hi)
        else:
            mn = vals.get(f'g{i}_min', 0)
            members.append(ConnectorNode(f'M{i}', deg_min=mn, deg_max=math.inf))
            sets.append(lambda x, mn=mn: x >= mn)
    d = vals.get('d', 0)
    grp = ConnectorDegreeGroupingNode('G')
    grp.deg_list, grp.deg_min, grp.deg_max = grp.get_combined_deg(members)
    exists = any(sum(c) == d and all(f(x) for f, x in zip(sets, c)) for c in itertools.product(range(0, max(d, 0)+1), repeat=len(kinds)))
    node = ConnectionChoiceNode.to_assign_node(grp, is_conditional=cond)
    acc = (d in node.conns) if node.conns is not None else d >= node.min_conns
    exp = exists or (cond and (d == 0 or (node.conns is None and d >= 0)))
    return dict(is_valid=bool(grp.is_valid(d)), exists=exists, node_accepts=bool(acc) if d >= 0 else None, node_expected=bool(exp) if d >= 0 else None)


def _run_connector(inst, res):
    from adsg_core import ConnectorNode
    lo, hi, d = z3.Int('lo'), z3.Int('hi'), z3.Int('d')

    def run():
        cn = ConnectorNode('C', deg_min=sym_int('lo'), deg_max=sym_int('hi'))
        return cn.is_valid(sym_int('d'))
    ex = explore(run)
    absorb(res, ex)
    if not ex.complete:
        res['status'] = INCONCLUSIVE
        res['notes'].append(ex.status)
        return
    require_exhaustive(res, ex)
    for p in ex.paths:
        res['obligations'] += 1
        s = z3.Solver()
        s.add(p.cond())
        if p.kind == 'exc':
            s.add(z3.Not(z3.Or(lo < 0, hi < lo)))
        else:
            v = z3val(p.value) if is_sym(p.value) else z3.BoolVal(bool(p.value))
            s.add(z3.Or(lo < 0, hi < lo, v != z3.And(lo <= d, d <= hi)))
        r = str(s.check())
        if r == 'unsat':
            res['discharged'] += 1
        else:
            m = s.model()
            vals = dict(lo=m.eval(lo, model_completion=True).as_long(), hi=m.eval(hi, model_completion=True).as_long(), d=m.eval(d, model_completion=True).as_long())
            try:
                got = ConnectorNode('C', deg_min=vals['lo'], deg_max=vals['hi']).is_valid(vals['d'])
            except ValueError as e:
                got = f'ValueError'
            want = 'ValueError' if vals['lo'] < 0 or vals['hi'] < vals['lo'] else (vals['lo'] <= vals['d'] <= vals['hi'])
            if got != want:
                _viol(res, 'connector', dict(kind='connector_range'), {}, vals, got, want)
            else:
                res['status'] = HARNESS_ERROR
                res['notes'].append(f'model does not reproduce {vals}')
        res['validated'] += 1
    res['sample'] = dict(harness='ConnectorNode(deg_min, deg_max).is_valid(d)', paths=[dict(pc=str(p.pc), outcome=p.kind, value=str(p.value)) for p in ex.paths])


def _run_connector_list(inst, res):
    from adsg_core import ConnectorNode
    a, b, d = z3.Int('a'), z3.Int('b'), z3.Int('d')

    def run():
        cn = ConnectorNode('C', deg_list=[sym_int('a'), sym_int('b')])
        return cn.is_valid(sym_int('d'))
    ex = explore(run)
    absorb(res, ex)
    for p in ex.paths:
        res['obligations'] += 1
        if p.kind == 'exc':
            _viol(res, 'connector', dict(kind='connector_list_raises'), {}, dict(path=str(p.pc)), repr(p.exc), 'bool')
            continue
        v = z3val(p.value) if is_sym(p.value) else z3.BoolVal(bool(p.value))
        s = z3.Solver()
        s.add(p.cond(), v != z3.Or(d == a, d == b))
        if str(s.check()) == 'unsat':
            res['discharged'] += 1
        else:
            _viol(res, 'connector', dict(kind='connector_list'), {}, dict(model=str(s.model())), str(p.value), 'd in list')
        res['validated'] += 1
    res['sample'] = dict(harness='ConnectorNode(deg_list=[a,b]).is_valid(d)', paths=len(ex.paths))


def replay(rec):
    a = rec['replay_args']
    cfg, inp = a['config'], a['inputs']
    if a['check'] == 'scenario':
        res = new_result('replay')
        _run_scenario(dict(template=cfg['template'], kind='scenario', label='replay'), res)
        hit = [v for v in res['violations'] if v['signature'].get('kind') == rec['signature']['kind']]
        for v in hit[:3]:
            print(v['signature'], v['input'], v['observed'], v['expected'])
        return len(hit) > 0
    if a['check'] == 'grouping':
        nat = _native_grouping(cfg['members'], inp['values'], cfg['cond'])
        print(cfg, inp, nat)
        return nat['is_valid'] != nat['exists'] or nat['node_accepts'] != nat['node_expected']
    return True


def _run_crosshair(inst, res):
    """second opinion only (DESIGN.md 1.2): a CrossHair counterexample where the main engine proved the claim makes this
    instance inconclusive; 'Not confirmed' is reported as not covered"""
    from checks import crosshair_opinion
    out = crosshair_opinion.run(inst['kernel'], per_condition_timeout=30)
    res['crosshair'] = out
    res['paths'] = len(out)
    res['obligations'] += len(out)
    res['discharged'] += len([o for o in out if o['verdict'] == 'confirmed'])
    for o in out:
        if o['verdict'] in ('counterexample', 'error'):
            res['status'] = INCONCLUSIVE
            res['notes'].append(f"CrossHair {o['function']}: {o['verdict']}: {o['detail']}")
        elif o['verdict'] != 'confirmed':
            res['notes'].append(f"CrossHair {o['function']}: not covered ({o['detail']})")
    res['sample'] = dict(harness=inst['label'], crosshair=out)
