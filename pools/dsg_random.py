"""
Seeded generator of small design space graphs without connection choices and without choice constraints (those have
their own hand-written templates): nested / independent selection choices, option nodes shared between choices, nodes
derived from several options (OR-existence), incompatibility constraints, discrete and continuous design-variable
nodes with one or two predecessors, metric nodes. Used to widen the quantifier "graphs" of C15 / C16 / C07 / C17 beyond
the hand-written templates; every graph is reproducible from its seed (`rnd<seed>`).

A graph is kept only if it is feasible, has at least one valid design and at most MAX_DESIGNS of them.
"""
import random

MAX_DESIGNS = 48


def _imp():
    from adsg_core import BasicDSG, NamedNode, DesignVariableNode, MetricNode
    return BasicDSG, NamedNode, DesignVariableNode, MetricNode


def _build(seed, attempt, metric_hook=None):
    B, N, DV, M = _imp()
    rnd = random.Random(seed*7919+attempt*104729+13)
    g = B()
    root = N('R')
    elements = [root]            # nodes something can hang under
    permanent = [root]
    edges = []
    choices = []
    all_opts = []
    counter = [0]

    def new_node(prefix):
        counter[0] += 1
        return N(f'{prefix}{counter[0]}')

    # a few permanent sub-elements
    for _ in range(rnd.choice([0, 1, 2])):
        n = new_node('P')
        edges.append((rnd.choice(permanent), n))
        permanent.append(n)
        elements.append(n)
    if edges:
        g.add_edges(edges)
    n_choices = rnd.choice([1, 2, 2, 3])
    for k in range(n_choices):
        origin = rnd.choice(elements)
        n_opt = rnd.choice([2, 2, 3])
        opts = []
        for _ in range(n_opt):
            if all_opts and rnd.random() < 0.12:
                # (never an ancestor of the choice's origin: a choice that can select its own ancestor is a
                # circular graph, whose enumeration is the subject of C01/C04, not of the properties using this pool)
                import networkx as nx
                cand = [o for o in all_opts if o not in opts and o is not origin and
                        not (o in g.graph and origin in g.graph and nx.has_path(g.graph, o, origin))]
                if cand:
                    opts.append(rnd.choice(cand))   # option node shared with another choice
                    continue
            opts.append(new_node('O'))
        try:
            c = g.add_selection_choice(f'C{k+1}', origin, opts)
        except Exception:  # noqa (e.g. a loop through a shared option)
            return None
        choices.append(c)
        for o in opts:
            if o not in all_opts:
                all_opts.append(o)
                elements.append(o)
        # derived sub-elements, some of them shared between options (OR-existence)
        if rnd.random() < 0.6:
            sub = new_node('E')
            parents = rnd.sample(opts, 1 if rnd.random() < 0.5 else min(2, len(opts)))
            if rnd.random() < 0.3 and len(all_opts) > len(opts):
                parents.append(rnd.choice([o for o in all_opts if o not in opts]))
            if rnd.random() < 0.2:
                parents.append(rnd.choice(permanent))  # also derived without any choice: permanent after all
            g.add_edges([(p, sub) for p in parents])
            elements.append(sub)
    # incompatibility between options of different choices
    # (not on an option node that several choices share: for those the complete encoder lists designs twice or lists
    # designs that do not decode - the subject of C03/C04/C06, not of the properties using this pool; DESIGN.md 11.5)
    n_used = {}
    for c_ in choices:
        for _, o_ in g.graph.out_edges(c_):
            n_used[o_] = n_used.get(o_, 0)+1
    single = [o for o in all_opts if n_used.get(o, 0) <= 1]
    if len(choices) >= 2 and len(single) >= 2 and rnd.random() < 0.4:
        a, b = rnd.sample(single, 2)
        try:
            g.add_incompatibility_constraint([a, b])
        except Exception:  # noqa
            return None
    # design-variable nodes
    dvs = []
    for k in range(rnd.choice([0, 1, 2, 3])):
        if rnd.random() < 0.6:
            n_o = rnd.choice([1, 2, 2, 3, 3])
            dv = DV(f'D{k+1}', options=list(range(10, 10+n_o)))
        else:
            lo = rnd.choice([-4., -1., 0., 1., 2.5])
            dv = DV(f'X{k+1}', bounds=(lo, lo+rnd.choice([0.5, 1., 4.])))
        parents = [rnd.choice(elements)]
        if rnd.random() < 0.25:
            other = [e for e in elements if e is not parents[0]]
            if other:
                parents.append(rnd.choice(other))
        g.add_edges([(p, dv) for p in parents])
        dvs.append(dv)
    # metric nodes
    from adsg_core import MetricType
    metrics = []
    for k in range(rnd.choice([0, 1, 2, 3])):
        d = rnd.choice([None, -1, 1, 1, -1])
        ref = rnd.choice([None, 0., -2.5, 3.])
        ty = rnd.choice([None, None, None, MetricType.OBJECTIVE, MetricType.CONSTRAINT, MetricType.NONE])
        if metric_hook is not None:  # lets a harness put symbolic values where the generator drew numbers
            d, ref = metric_hook(k, d, ref)
        m = M(f'M{k+1}', direction=d, ref=ref, type_=ty)
        g.add_edges([(rnd.choice(elements), m)])
        metrics.append(m)
    try:
        g = g.set_start_nodes({root})
        if not g.feasible:
            return None
    except Exception:  # noqa
        return None
    return g, dict(sel=choices, dv=dvs, metrics=metrics, seed=seed, attempt=attempt)


_OK_ATTEMPT = {}


def random_template(seed, metric_hook=None):
    """deterministic: the first attempt (0, 1, 2, ...) that gives an acceptable graph"""
    from adsg_core import GraphProcessor
    if seed in _OK_ATTEMPT:
        return _build(seed, _OK_ATTEMPT[seed], metric_hook)
    for attempt in range(60):
        r = _build(seed, attempt)
        if r is None:
            continue
        g, info = r
        try:
            gp = GraphProcessor(g)
            n_dv = len(gp.des_vars)
            x_all = gp.get_all_discrete_x()
            if x_all is None or n_dv == 0 or n_dv > 6:
                continue
            n_valid = x_all[0].shape[0]
            if n_valid < 1 or n_valid > MAX_DESIGNS:
                continue
        except (RuntimeError, ValueError):
            continue
        _OK_ATTEMPT[seed] = attempt
        return _build(seed, attempt, metric_hook)
    raise RuntimeError(f'no acceptable random graph for seed {seed}')


def names(seeds):
    return [f'rnd{s}' for s in seeds]
