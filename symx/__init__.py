from .core import *
