"""
symx - a small path-enumerating symbolic executor for plain Python code, z3 behind every decision.

The unmodified functions of /repo are *executed* on SInt / SReal / SBool values (operator overloading). Taking the
truth value of an SBool is a branch; using an SInt as an index / hash / C integer is a concretisation (an exhaustive
case split on the value). One call = many paths; a path is a list of decisions; the function is re-run from the start
for each unexplored decision prefix (depth first). Every feasibility question goes to z3; an infeasible side of a
branch is never scheduled, so no run ever has to be cut short for infeasibility (NumPy swallows exceptions raised
inside __index__, so "stop here" can not be signalled from inside a dunder method).

The result of an exploration is a *summary*: [(path condition, outcome)], with the inputs still unbounded. Properties
are then solver queries over summaries.
"""
import os
import ast
import sys
import time
import math
import linecache
import fractions
import numbers
import z3
import numpy as np

__all__ = ['SInt', 'SReal', 'SBool', 'SArr', 'explore', 'Path', 'Exploration', 'Abort', 'EngineError', 'Stats',
           'sym_int', 'sym_real', 'sym_bool', 'current', 'z3val', 'lift', 'is_sym', 'representative', 'conc_py',
           'deep_eval', 'deep_expr_eq', 'model_int', 'STATS', 'check_sat', 'SymOut', 'MSG_ROOTS']


class Abort(BaseException):
    """Ends the current run (cap reached / replay divergence). Derives from BaseException so that `except Exception`
    in the code under analysis does not swallow it."""


class EngineError(Exception):
    """The engine met something it cannot model: harness error, never a verdict."""


class Stats:
    def __init__(self):
        self.solver_queries = 0
        self.solver_s = 0.
        self.paths = 0
        self.decisions = 0
        self.concretisations = 0
        self.stub_sites = set()
        self.explorations = 0

    def add(self, other: 'Stats'):
        self.solver_queries += other.solver_queries
        self.solver_s += other.solver_s
        self.paths += other.paths
        self.decisions += other.decisions
        self.concretisations += other.concretisations
        self.stub_sites |= other.stub_sites
        self.explorations += other.explorations

    def as_dict(self):
        return dict(solver_queries=self.solver_queries, solver_s=round(self.solver_s, 3), paths=self.paths,
                    decisions=self.decisions, concretisations=self.concretisations,
                    stub_sites=sorted(self.stub_sites), explorations=self.explorations)


STATS = Stats()  # process-wide totals (each worker process has its own)

_CTX = None  # the exploration currently running (one per process; explorations do not nest)

_THIS_FILE = __file__


def current():
    return _CTX


def check_sat(solver, *assumptions):
    """solver.check with accounting. Returns 'sat' / 'unsat' / 'unknown'."""
    t = time.perf_counter()
    r = solver.check(*assumptions)
    dt = time.perf_counter()-t
    STATS.solver_queries += 1
    STATS.solver_s += dt
    if _CTX is not None:
        _CTX.stats.solver_queries += 1
        _CTX.stats.solver_s += dt
    return str(r)


# ----------------------------------------------------------------------------------------------------------------------
# values


def _real_of_float(f: float):
    if math.isnan(f) or math.isinf(f):
        raise EngineError('nan/inf cannot be lifted to a z3 Real')
    n, d = f.as_integer_ratio()
    return z3.RealVal(fractions.Fraction(n, d))


def _is_np_scalar(o):
    return isinstance(o, np.generic)


def lift(o):
    """Python / NumPy scalar or symbolic value -> symbolic value (SInt / SReal / SBool)"""
    if isinstance(o, (SInt, SReal, SBool)):
        return o
    if isinstance(o, (bool, np.bool_)):
        return SBool(z3.BoolVal(bool(o)))
    if isinstance(o, (int, np.integer)):
        return SInt(z3.IntVal(int(o)))
    if isinstance(o, (float, np.floating)):
        return SReal(_real_of_float(float(o)))
    if isinstance(o, fractions.Fraction):
        return SReal(z3.RealVal(o))
    raise EngineError(f'cannot lift {type(o)!r}')


def is_sym(o):
    return isinstance(o, (SInt, SReal, SBool))


def z3val(o):
    """z3 term of a symbolic or concrete scalar"""
    return lift(o).e


def _const_of(e):
    """Python value if the z3 term is a literal, else None"""
    if z3.is_int_value(e):
        return e.as_long()
    if z3.is_true(e):
        return True
    if z3.is_false(e):
        return False
    if z3.is_rational_value(e):
        return fractions.Fraction(e.numerator_as_long(), e.denominator_as_long())
    return None


def _simp(e):
    return z3.simplify(e)


def _fold(e, as_bool=False):
    """Return a Python constant if the term folds to a literal, otherwise the wrapped symbolic value"""
    e = _simp(e)
    c = _const_of(e)
    if c is not None:
        if isinstance(c, fractions.Fraction):
            return SReal(e)  # keep exact rationals symbolic-typed (never silently a float)
        return c
    if z3.is_bool(e):
        return SBool(e)
    if z3.is_int(e):
        return SInt(e)
    return SReal(e)


def _coerce_pair(a, b):
    """z3 terms of a and b in a common arithmetic sort; returns (ea, eb, is_real) or None if b is not a scalar"""
    if isinstance(b, (SInt, SReal)):
        eb = b.e
    elif isinstance(b, SBool):
        eb = z3.If(b.e, z3.IntVal(1), z3.IntVal(0))
    elif isinstance(b, (bool, np.bool_)):
        eb = z3.IntVal(int(b))
    elif isinstance(b, (int, np.integer)):
        eb = z3.IntVal(int(b))
    elif isinstance(b, (float, np.floating)):
        eb = _real_of_float(float(b))
    elif isinstance(b, fractions.Fraction):
        eb = z3.RealVal(b)
    else:
        return None
    ea = a.e
    if z3.is_int(ea) and z3.is_real(eb):
        ea = z3.ToReal(ea)
    elif z3.is_real(ea) and z3.is_int(eb):
        eb = z3.ToReal(eb)
    return ea, eb, z3.is_real(ea)


def _inf_cmp(op, b):
    """comparison `x op b` for finite x and b = +-inf / nan; returns bool or None if b is finite"""
    if isinstance(b, (float, np.floating)):
        b = float(b)
        if math.isnan(b):
            return op == 'ne'
        if math.isinf(b):
            pos = b > 0
            return {'lt': pos, 'le': pos, 'gt': not pos, 'ge': not pos, 'eq': False, 'ne': True}[op]
    return None


_RUN_ID = [0]  # id of the run currently executing (incremented by explore for every run)


class _SNum:
    """`e` is the z3 term. When a value is concretised through its wrapper (__index__/__int__/__hash__), the wrapper is
    *pinned* to that literal for the rest of the run (the path condition says so anyway), so that later arithmetic on it
    folds to plain Python numbers. Pins are tagged with the run id and ignored by every other run."""
    __slots__ = ('_e', '_pin', '_pin_run')

    def __init__(self, e):
        self._e = e
        self._pin = None
        self._pin_run = -1

    @property
    def e(self):
        if self._pin_run == _RUN_ID[0] and _CTX is not None:
            return self._pin
        return self._e

    def _pin_to(self, v):
        if _CTX is not None and _CTX.last_was_stub:
            _CTX.last_was_stub = False
            return
        if _CTX is not None:
            self._pin = _lit(self._e, v)
            self._pin_run = _RUN_ID[0]

    # --- arithmetic
    def _bin(self, other, f, rev=False):
        if isinstance(other, np.ndarray):
            return NotImplemented
        p = _coerce_pair(self, other)
        if p is None:
            return NotImplemented
        a, b, _ = p
        return _fold(f(b, a) if rev else f(a, b))

    def __add__(self, o): return self._bin(o, lambda a, b: a+b)
    def __radd__(self, o): return self._bin(o, lambda a, b: a+b, True)
    def __sub__(self, o): return self._bin(o, lambda a, b: a-b)
    def __rsub__(self, o): return self._bin(o, lambda a, b: a-b, True)
    def __mul__(self, o): return self._bin(o, lambda a, b: a*b)
    def __rmul__(self, o): return self._bin(o, lambda a, b: a*b, True)
    def __neg__(self): return _fold(-self.e)
    def __pos__(self): return self

    def __abs__(self):
        return _fold(z3.If(self.e >= 0, self.e, -self.e))

    def __truediv__(self, o):
        if isinstance(o, np.ndarray):
            return NotImplemented
        p = _coerce_pair(self, o)
        if p is None:
            return NotImplemented
        a, b, _ = p
        return _truediv(a, b)

    def __rtruediv__(self, o):
        p = _coerce_pair(self, o)
        if p is None:
            return NotImplemented
        a, b, _ = p
        return _truediv(b, a)

    def __pow__(self, k):
        if isinstance(k, (int, np.integer)) and 0 <= int(k) <= 8:
            r = z3.IntVal(1) if z3.is_int(self.e) else z3.RealVal(1)
            for _ in range(int(k)):
                r = r*self.e
            return _fold(r)
        if isinstance(k, (float, np.floating)) and float(k) == 0.5:
            raise EngineError('sqrt of a symbolic value')
        raise EngineError(f'unsupported power {k!r}')

    # --- comparisons
    def _cmp(self, o, op):
        if isinstance(o, np.ndarray):
            return NotImplemented
        ic = _inf_cmp(op, o)
        if ic is not None:
            return ic
        p = _coerce_pair(self, o)
        if p is None:
            if op == 'eq':
                return False
            if op == 'ne':
                return True
            return NotImplemented
        a, b, _ = p
        e = {'lt': a < b, 'le': a <= b, 'gt': a > b, 'ge': a >= b, 'eq': a == b, 'ne': a != b}[op]
        return _fold(e)

    def __lt__(self, o): return self._cmp(o, 'lt')
    def __le__(self, o): return self._cmp(o, 'le')
    def __gt__(self, o): return self._cmp(o, 'gt')
    def __ge__(self, o): return self._cmp(o, 'ge')
    def __eq__(self, o): return self._cmp(o, 'eq')
    def __ne__(self, o): return self._cmp(o, 'ne')

    def __bool__(self):
        return bool(self != 0)

    def __format__(self, spec):
        return f'<{self.e}>'

    def __repr__(self):
        return f'{self.__class__.__name__}({self.e})'

    __str__ = __repr__

    def __deepcopy__(self, memo):
        return self

    def __copy__(self):
        return self

    def __reduce__(self):
        raise EngineError('symbolic value pickled')


def _truediv(a, b):
    if z3.is_int(a):
        a = z3.ToReal(a)
    if z3.is_int(b):
        b = z3.ToReal(b)
    bz = _fold(b == 0)
    if bz is True or (isinstance(bz, SBool) and bool(bz)):
        raise ZeroDivisionError('division by zero')
    return _fold(a/b)


class SInt(_SNum):
    __slots__ = ()

    def _intbin(self, o, f, rev=False):
        if isinstance(o, np.ndarray):
            return NotImplemented
        if isinstance(o, (float, np.floating, SReal)):
            raise EngineError('floor division / modulo with a real operand')
        p = _coerce_pair(self, o)
        if p is None:
            return NotImplemented
        a, b, _ = p
        if rev:
            a, b = b, a
        bz = _fold(b == 0)
        if bz is True or (isinstance(bz, SBool) and bool(bz)):
            raise ZeroDivisionError('integer division or modulo by zero')
        return _fold(f(a, b))

    # Python floor semantics. z3's div/mod are Euclidean (remainder >= 0): for b > 0 they coincide with floor; for
    # b < 0 Python's quotient is floor(a/b) = -ceil(a/-b)
    @staticmethod
    def _fdiv(a, b):
        return z3.If(b > 0, a/b, z3.If(a % b == 0, a/b, a/b - 1))

    @staticmethod
    def _fmod(a, b):
        q = SInt._fdiv(a, b)
        return a - b*q

    def __floordiv__(self, o): return self._intbin(o, SInt._fdiv)
    def __rfloordiv__(self, o): return self._intbin(o, SInt._fdiv, True)
    def __mod__(self, o): return self._intbin(o, SInt._fmod)
    def __rmod__(self, o): return self._intbin(o, SInt._fmod, True)

    def __index__(self):
        v = _concretise(self.e, in_dunder=True)
        self._pin_to(v)
        return v

    __int__ = __index__

    def __trunc__(self):
        return self

    def __round__(self, n=None):
        return self

    def __float__(self):
        return float(_concretise(self.e, in_dunder=True))

    def __hash__(self):
        return hash(self.__index__())

    def sqrt(self):
        """np.sqrt on an object array calls this. A symbolic radicand yields an SSqrt, which only supports the order
        comparisons (argmin / argsort / min): sqrt is monotone on the non-negative numbers."""
        c = _const_of(_simp(self.e))
        if c is None:
            return SSqrt(self)
        return math.sqrt(c)


class SSqrt:
    """sqrt(x) of a symbolic x >= 0, comparable only: sqrt(a) < sqrt(b) <=> a < b; sqrt(a) < c <=> c > 0 and a < c*c"""
    __slots__ = ('x',)

    def __init__(self, x):
        self.x = x
        neg = x < 0
        if neg is True or (isinstance(neg, SBool) and bool(neg)):
            raise ValueError('math domain error')

    @staticmethod
    def _rad(o):
        """(radicand, ok) of the other operand: another SSqrt, or a non-negative number c -> c*c"""
        if isinstance(o, SSqrt):
            return o.x, None
        if isinstance(o, (int, float, np.integer, np.floating)):
            return o*o, o >= 0
        raise EngineError(f'comparison of a symbolic square root with {type(o)!r}')

    def _cmp(self, o, op):
        r, nonneg = self._rad(o)
        if nonneg is False:  # sqrt(x) vs a negative number
            return op in ('gt', 'ge', 'ne')
        return {'lt': self.x < r, 'le': self.x <= r, 'gt': self.x > r, 'ge': self.x >= r,
                'eq': self.x == r, 'ne': self.x != r}[op]

    def __lt__(self, o): return self._cmp(o, 'lt')
    def __le__(self, o): return self._cmp(o, 'le')
    def __gt__(self, o): return self._cmp(o, 'gt')
    def __ge__(self, o): return self._cmp(o, 'ge')
    def __eq__(self, o): return self._cmp(o, 'eq')
    def __ne__(self, o): return self._cmp(o, 'ne')
    __hash__ = None

    def __repr__(self):
        return f'SSqrt({self.x!r})'


class SReal(_SNum):
    __slots__ = ()

    def sqrt(self):
        c = _const_of(_simp(self.e))
        if c is None:
            return SSqrt(self)
        return math.sqrt(c)

    def __float__(self):
        v = _concretise(self.e, in_dunder=True)
        return float(v)

    def __hash__(self):
        return hash(float(self))

    def __int__(self):
        # int() truncates towards zero; the truncated value is an integer term that is then concretised
        fl = z3.ToInt(self.e)
        t = z3.If(self.e >= 0, fl, z3.If(z3.ToReal(fl) == self.e, fl, fl+1))
        return _concretise(t, in_dunder=True)

    __trunc__ = __int__

    def __floordiv__(self, o):
        raise EngineError('floor division of a symbolic real')

    def __mod__(self, o):
        raise EngineError('modulo of a symbolic real')

    def __round__(self, n=None):
        """round() to the nearest integer, ties to even (Python 3 semantics); the result stays symbolic (SInt)"""
        if n is not None:
            raise EngineError('round(x, n) of a symbolic real')
        h = self.e + z3.RealVal('1/2')
        fl = z3.ToInt(h)
        tie = z3.ToReal(fl) == h
        return _fold(z3.If(z3.And(tie, fl % 2 != 0), fl-1, fl))


class SBool:
    __slots__ = ('e',)

    def __init__(self, e):
        self.e = e

    def __bool__(self):
        return _branch(self.e)

    def _bin(self, o, f):
        if isinstance(o, SBool):
            return _fold(f(self.e, o.e))
        if isinstance(o, (bool, np.bool_)):
            return _fold(f(self.e, z3.BoolVal(bool(o))))
        return NotImplemented

    def __and__(self, o): return self._bin(o, z3.And)
    __rand__ = __and__
    def __or__(self, o): return self._bin(o, z3.Or)
    __ror__ = __or__
    def __xor__(self, o): return self._bin(o, z3.Xor)
    __rxor__ = __xor__
    def __invert__(self): return _fold(z3.Not(self.e))
    def __eq__(self, o): return self._bin(o, lambda a, b: a == b)
    def __ne__(self, o): return self._bin(o, lambda a, b: a != b)

    def __hash__(self):
        return hash(bool(self))

    def __index__(self):
        return 1 if _branch(self.e, in_dunder=True) else 0

    __int__ = __index__

    def _as_int(self):
        return SInt(z3.If(self.e, z3.IntVal(1), z3.IntVal(0)))

    def __add__(self, o): return self._as_int()+o
    __radd__ = __add__

    def __repr__(self):
        return f'SBool({self.e})'

    __str__ = __repr__

    def __format__(self, spec):
        return f'<{self.e}>'

    def __deepcopy__(self, memo):
        return self

    def __copy__(self):
        return self


def sym_int(name):
    return SInt(z3.Int(name))


def sym_real(name):
    return SReal(z3.Real(name))


def sym_bool(name):
    return SBool(z3.Bool(name))


class SArr:
    """View on a concrete NumPy array that may be indexed with symbolic integers: a symbolic index yields an ite-chain
    over the axis after a branch on "index in range" (out of range raises IndexError like NumPy, negative indices wrap
    like NumPy)."""

    def __init__(self, arr):
        self.a = np.asarray(arr)

    @property
    def shape(self): return self.a.shape
    @property
    def ndim(self): return self.a.ndim
    @property
    def dtype(self): return self.a.dtype
    @property
    def size(self): return self.a.size
    @property
    def T(self): return SArr(self.a.T)

    def __len__(self): return len(self.a)
    def __array__(self, dtype=None, copy=None):
        return self.a if dtype is None else self.a.astype(dtype)

    def __iter__(self):
        for i in range(len(self.a)):
            yield self[i]

    def __getitem__(self, key):
        if not isinstance(key, tuple):
            key = (key,)
        sym_axes = [i for i, k in enumerate(key) if isinstance(k, (SInt, SBool))]
        if not sym_axes:
            r = self.a[key]
            return SArr(r) if isinstance(r, np.ndarray) else r
        if any(k is None or k is Ellipsis or isinstance(k, (list, np.ndarray)) for k in key):
            raise EngineError('SArr: unsupported mixed symbolic index')
        ax = sym_axes[0]
        # axis of the underlying array: slices and ints both consume one axis
        idx = key[ax]
        if isinstance(idx, SBool):
            idx = idx._as_int()
        n = self.a.shape[ax]
        in_range = (idx >= -n) & (idx < n)
        if not (in_range if isinstance(in_range, bool) else bool(in_range)):
            raise IndexError(f'index out of bounds for axis {ax} with size {n}')
        neg = idx < 0
        if neg is True or (isinstance(neg, SBool) and bool(neg)):
            idx = idx+n
        res = []
        for k in range(n):
            sub = self[key[:ax]+(k,)+key[ax+1:]]
            if isinstance(sub, SArr):
                raise EngineError('SArr: symbolic index must select scalars')
            res.append(sub)
        if isinstance(idx, int):
            return res[idx]
        out = z3val(res[-1])
        for k in range(n-2, -1, -1):
            out = z3.If(idx.e == k, z3val(res[k]), out)
        return _fold(out)

    def __repr__(self):
        return f'SArr({self.a!r})'


# ----------------------------------------------------------------------------------------------------------------------
# exploration


class Path:
    __slots__ = ('pc', 'decisions', 'kind', 'value', 'exc', 'sites', 'n_conc')

    def __init__(self, pc, decisions, kind, value, exc=None, sites=None, n_conc=0):
        self.pc = pc  # list of z3 Bool terms (without the precondition)
        self.decisions = decisions
        self.kind = kind  # 'ret' | 'exc'
        self.value = value
        self.exc = exc
        self.sites = sites
        self.n_conc = n_conc

    def cond(self):
        return z3.And(*self.pc) if self.pc else z3.BoolVal(True)

    def __repr__(self):
        return f'Path({self.kind}, pc={self.pc}, value={self.value!r})'


class Exploration:
    def __init__(self):
        self.paths = []
        self.status = 'complete'  # or 'inconclusive: <reason>'
        self.stats = Stats()
        self.pre = []
        self.wall_s = 0.

    @property
    def complete(self):
        return self.status == 'complete'

    def covered(self):
        """pc_1 or ... or pc_k"""
        return z3.Or(*[p.cond() for p in self.paths]) if self.paths else z3.BoolVal(False)

    def exhaustive(self, timeout_ms=20000):
        """discharge pre and not(pc_1 or .. or pc_k) = unsat"""
        s = z3.Solver()
        s.set('timeout', timeout_ms)
        s.add(*self.pre)
        s.add(z3.Not(self.covered()))
        return check_sat(s) == 'unsat'

    def disjoint(self, timeout_ms=20000):
        """paths are pairwise disjoint by construction (siblings differ in one decision); sampled check"""
        s = z3.Solver()
        s.set('timeout', timeout_ms)
        s.add(*self.pre)
        ps = self.paths[:40]
        for i in range(len(ps)):
            for j in range(i+1, len(ps)):
                if check_sat(s, ps[i].cond(), ps[j].cond()) != 'unsat':
                    return False
        return True


class _Ctx:
    def __init__(self, pre, max_paths, fanout_cap, deadline, query_timeout_ms):
        self.solver = z3.Solver()
        self.solver.set('timeout', query_timeout_ms)
        self.pre = pre
        self.max_paths = max_paths
        self.fanout_cap = fanout_cap
        self.deadline = deadline
        self.stats = Stats()
        self.prefix = []
        self.pos = 0
        self.trace = []
        self.sites = []
        self.pc = []
        self.pending = []
        self.abort_reason = None
        self.n_conc = 0
        self.representative_depth = 0
        self.fanout_hit = None
        self.prefix_sites = []
        self.dead = False
        self.unknown_as_feasible = False
        self.last_was_stub = False
        self.abs = None
        self.asolver = None

    def start(self, prefix):
        self.prefix = prefix
        self.pos = 0
        self.trace = []
        self.sites = []
        self.pc = []
        self.abort_reason = None
        self.n_conc = 0
        self.solver.push()
        if self.abs is not None:
            self.asolver.push()

    def finish(self):
        self.solver.pop()
        if self.abs is not None:
            self.asolver.pop()

    def add(self, e):
        self.pc.append(e)
        self.solver.add(e)
        if self.abs is not None:
            self.asolver.add(self.abs(e))

    def feasible(self, e):
        """'sat' / 'unsat' / 'unknown' of pc and e. With an abstraction: decided on the abstracted formulas, where
        'sat' only means "not shown infeasible" (the side is explored)."""
        if self.abs is not None:
            return check_sat(self.asolver, self.abs(e))
        return check_sat(self.solver, e)


def _site():
    """(file, line) of the innermost frame outside the engine and outside numpy"""
    f = sys._getframe(1)
    while f is not None:
        fn = f.f_code.co_filename
        if fn != _THIS_FILE and 'site-packages' not in fn and not fn.startswith('<'):
            return fn, f.f_lineno
        f = f.f_back
    return '?', 0


_STMT_CACHE = {}
MSG_ROOTS = [os.environ.get('VERIF_REPO', '/repo').rstrip('/')+'/']  # files whose raise/print/log statements get the formatting stub


def _in_message_statement():
    """True iff the innermost /repo frame currently executes a `raise ...`, `print(...)`, `log.*(...)` or
    `warnings.warn(...)` statement (decided from the AST of the current source of that file). This is the "formatting
    gets an empty body" stub: values are only rendered into a message there."""
    f = sys._getframe(1)
    while f is not None:
        fn = f.f_code.co_filename
        if any(fn.startswith(r) for r in MSG_ROOTS):
            break
        f = f.f_back
    if f is None:
        return None
    fn, ln = f.f_code.co_filename, f.f_lineno
    key = fn
    if key not in _STMT_CACHE:
        try:
            src = ''.join(linecache.getlines(fn)) or open(fn).read()
            tree = ast.parse(src)
        except Exception:
            tree = None
        spans = []
        if tree is not None:
            for node in ast.walk(tree):
                is_msg = isinstance(node, ast.Raise)
                if isinstance(node, ast.Expr) and isinstance(node.value, ast.Call):
                    fnode = node.value.func
                    name = fnode.id if isinstance(fnode, ast.Name) else \
                        (fnode.value.id if isinstance(fnode, ast.Attribute) and isinstance(fnode.value, ast.Name)
                         else None)
                    if name in ('print', 'log', 'logging', 'warnings', 'logger'):
                        is_msg = True
                if is_msg:
                    spans.append((node.lineno, getattr(node, 'end_lineno', node.lineno)))
        _STMT_CACHE[key] = spans
    for a, b in _STMT_CACHE[key]:
        if a <= ln <= b:
            return f'{fn[len(MSG_ROOTS[0]):] if fn.startswith(MSG_ROOTS[0]) else fn}:{ln}'
    return None


def _check_abort(ctx, in_dunder):
    if ctx.abort_reason is not None and not in_dunder:
        raise Abort(ctx.abort_reason)


def _set_abort(ctx, reason, in_dunder):
    if ctx.abort_reason is None:
        ctx.abort_reason = reason
    if not in_dunder:
        raise Abort(reason)


def _branch(e, in_dunder=False):
    e = _simp(e)
    if z3.is_true(e):
        return True
    if z3.is_false(e):
        return False
    ctx = _CTX
    if ctx is None:
        raise EngineError(f'truth value of a symbolic expression outside an exploration: {e}')
    _check_abort(ctx, in_dunder)
    if ctx.abort_reason is not None:
        return True
    site = _site()
    if ctx.pos < len(ctx.prefix):
        d = ctx.prefix[ctx.pos]
        if d[0] not in ('b', 'f') or ctx.prefix_sites[ctx.pos] != site:
            _set_abort(ctx, f'replay divergence at decision {ctx.pos}: {d} recorded at '
                            f'{ctx.prefix_sites[ctx.pos]}, now branch at {site}', in_dunder)
            return True
        val = d[1]
        ctx.pos += 1
        ctx.trace.append(d)
        ctx.sites.append(site)
        if d[0] == 'b':
            ctx.add(e if val else z3.Not(e))
        return val
    if time.time() > ctx.deadline:
        _set_abort(ctx, 'time cap', in_dunder)
        return True
    r_t = ctx.feasible(e)
    r_f = ctx.feasible(z3.Not(e))
    if r_t == 'unknown' or r_f == 'unknown':
        if not ctx.unknown_as_feasible:
            _set_abort(ctx, 'solver returned unknown on a branch', in_dunder)
            return True
        # over-approximation: a side whose feasibility is unknown is explored (its path condition may be
        # unsatisfiable, in which case every claim about it holds vacuously)
        ctx.stats.unknown_branches = getattr(ctx.stats, 'unknown_branches', 0)+1
        r_t = 'sat' if r_t == 'unknown' else r_t
        r_f = 'sat' if r_f == 'unknown' else r_f
    ctx.pos += 1
    if r_t == 'sat' and r_f == 'sat':
        ctx.stats.decisions += 1
        ctx.pending.append((ctx.trace+[('b', False)], ctx.sites+[site]))
        ctx.trace.append(('b', True))
        ctx.sites.append(site)
        ctx.add(e)
        return True
    if r_t == 'sat':
        ctx.trace.append(('f', True))
        ctx.sites.append(site)
        return True
    if r_f == 'sat':
        ctx.trace.append(('f', False))
        ctx.sites.append(site)
        return False
    if ctx.unknown_as_feasible:
        # an earlier side of unknown feasibility turned out to be infeasible: drop this run silently
        ctx.dead = True
        _set_abort(ctx, 'dead path', in_dunder)
        return True
    _set_abort(ctx, 'path condition unsatisfiable (engine error)', in_dunder)
    return True


def _model_value(ctx, e, extra=()):
    """a value of e consistent with the path condition (and extra constraints), or None"""
    if check_sat(ctx.solver, *extra) != 'sat':
        return None
    m = ctx.solver.model()
    v = m.eval(e, model_completion=True)
    c = _const_of(v)
    if c is None:
        raise EngineError(f'model value is not a literal: {v}')
    return c


def _concretise(e, in_dunder=False):
    e = _simp(e)
    c = _const_of(e)
    if c is not None:
        return c
    ctx = _CTX
    if ctx is None:
        raise EngineError(f'concretisation of a symbolic expression outside an exploration: {e}')
    ctx.last_was_stub = False
    if ctx.abort_reason is not None:
        return 0
    site = _site()
    if ctx.pos < len(ctx.prefix):
        d = ctx.prefix[ctx.pos]
        if d[0] not in ('c', 'r') or ctx.prefix_sites[ctx.pos] != site:
            _set_abort(ctx, f'replay divergence at decision {ctx.pos}: {d} recorded at '
                            f'{ctx.prefix_sites[ctx.pos]}, now concretisation at {site}', in_dunder)
            return 0
        ctx.pos += 1
        v, excl = d[1], d[2]
        ctx.trace.append(d)
        ctx.sites.append(site)
        if d[0] == 'r':
            # formatting stub: the representative value only goes into a message, the path condition is not narrowed
            ctx.last_was_stub = True
            return v
        if d[0] == 'c' and ctx.pos == len(ctx.prefix):
            # this is the freshly scheduled sibling: schedule the next one (before e == v is asserted)
            _schedule_next_value(ctx, e, excl, site, in_dunder)
        ctx.add(e == _lit(e, v))
        ctx.n_conc += 1
        return v
    if time.time() > ctx.deadline:
        _set_abort(ctx, 'time cap', in_dunder)
        return 0
    # formatting stub / declared representative region: one representative value, no sibling
    stub = _in_message_statement() if ctx.representative_depth == 0 else 'representative-region'
    v = _model_value(ctx, e)
    if v is None:
        _set_abort(ctx, 'solver returned unknown/unsat on a concretisation', in_dunder)
        return 0
    ctx.pos += 1
    if stub is not None:
        ctx.stats.stub_sites.add(stub)
        STATS.stub_sites.add(stub)
        ctx.trace.append(('r', v, ()))
        ctx.sites.append(site)
        ctx.last_was_stub = True  # the value only goes into a message: no constraint, no pin
        return v
    ctx.stats.concretisations += 1
    ctx.n_conc += 1
    d = ('c', v, (v,))
    # schedule sibling before committing (the sibling shares the trace up to here)
    base_trace, base_sites = list(ctx.trace), list(ctx.sites)
    ctx.trace.append(d)
    ctx.sites.append(site)
    _schedule_next_value(ctx, e, (v,), site, in_dunder, base=(base_trace, base_sites))
    ctx.add(e == _lit(e, v))
    return v


def _lit(e, v):
    if z3.is_int(e):
        return z3.IntVal(v)
    if z3.is_bool(e):
        return z3.BoolVal(v)
    return z3.RealVal(v)


def _schedule_next_value(ctx, e, excl, site, in_dunder, base=None):
    """if e can take a value outside excl under the current path condition, schedule that run"""
    if base is None:
        base = (ctx.trace[:-1], ctx.sites[:-1])
    # NB: called before `e == v` is added to the solver for the current run
    cons = [e != _lit(e, x) for x in excl]
    r = check_sat(ctx.solver, *cons)
    if r == 'unsat':
        return
    if r == 'unknown':
        _set_abort(ctx, 'solver returned unknown on a concretisation', True)
        return
    if len(excl) >= ctx.fanout_cap:
        ctx.fanout_hit = f'fan-out cap ({ctx.fanout_cap}) at {site[0]}:{site[1]}'
        return
    m = ctx.solver.model()
    v2 = _const_of(m.eval(e, model_completion=True))
    ctx.stats.decisions += 1
    ctx.pending.append((base[0]+[('c', v2, tuple(excl)+(v2,))], base[1]+[site]))


class representative:
    """Context manager: concretisations inside take one representative value (no case split). Every use is a stated cut
    of the claim and is listed in the evidence (stub site 'representative-region')."""

    def __enter__(self):
        if _CTX is not None:
            _CTX.representative_depth += 1

    def __exit__(self, *a):
        if _CTX is not None:
            _CTX.representative_depth -= 1
        return False


_NUMBA_READY = [False]


def _numba_ready():
    """numba builds its registry of NumPy functions lazily at its first compilation, by looking at the attributes of the
    numpy module; that must not happen while a shim is installed. Force it once before the first exploration."""
    if _NUMBA_READY[0]:
        return
    _NUMBA_READY[0] = True
    if 'numba' in sys.modules:
        import numba

        @numba.njit
        def _f(x):
            return np.sqrt(x)+1.
        _f(1.)


def _shim_sqrt(orig):
    """NumPy shim (environment stub, active during an exploration only): np.sqrt on an object array. NumPy's object loop
    needs a `.sqrt()` method on every element, which plain Python numbers (what pinned symbolic values fold to) do not
    have; concrete numbers are converted to float (same result as on a numeric array), symbolic elements go through
    their own `.sqrt()` (order-only SSqrt)."""
    def sqrt(x, *a, **kw):
        if isinstance(x, np.ndarray) and x.dtype == object and not a and not kw:
            flat = [v.sqrt() if isinstance(v, (SInt, SReal)) else math.sqrt(v) for v in x.ravel().tolist()]
            if all(isinstance(v, float) for v in flat):
                return np.array(flat, dtype=float).reshape(x.shape)
            out = np.empty(len(flat), dtype=object)
            for i_, v in enumerate(flat):
                out[i_] = v
            return out.reshape(x.shape)
        if isinstance(x, (SInt, SReal)):
            return x.sqrt()
        return orig(x, *a, **kw)
    return sqrt


def explore(fn, pre=(), max_paths=20000, fanout_cap=64, time_cap_s=120., query_timeout_ms=20000,
            keep_exceptions=(Exception,), unknown_as_feasible=False, abstract_fp=False) -> Exploration:
    """Run fn() (zero arguments; builds its own fresh state and runs the real code on symbolic values) once per
    feasible decision sequence. pre: z3 constraints on the symbolic inputs (asserted before the code runs)."""
    global _CTX
    if _CTX is not None:
        raise EngineError('explorations do not nest')
    ex = Exploration()
    ex.pre = list(pre)
    t0 = time.time()
    ctx = _Ctx(list(pre), max_paths, fanout_cap, t0+time_cap_s, query_timeout_ms)
    ctx.unknown_as_feasible = unknown_as_feasible or abstract_fp
    if abstract_fp:
        ctx.abs = FPAbstraction()
        ctx.asolver = z3.Solver()
        ctx.asolver.set('timeout', query_timeout_ms)
        ctx.asolver.add(*[ctx.abs(c) for c in pre])
    ctx.solver.add(*pre)
    if check_sat(ctx.solver) != 'sat':
        ex.status = 'inconclusive: precondition unsatisfiable'
        return ex
    ctx.pending.append(([], []))
    _CTX = ctx
    _numba_ready()
    _np_sqrt = np.sqrt
    np.sqrt = _shim_sqrt(_np_sqrt)
    try:
        while ctx.pending:
            if len(ex.paths) >= max_paths:
                ex.status = f'inconclusive: path cap ({max_paths})'
                break
            if time.time() > ctx.deadline:
                ex.status = 'inconclusive: time cap'
                break
            prefix, psites = ctx.pending.pop()
            ctx.prefix_sites = psites
            _RUN_ID[0] += 1
            ctx.start(prefix)
            kind, value, exc = 'ret', None, None
            try:
                value = fn()
            except Abort as a:
                kind = 'abort'
                if ctx.abort_reason is None:
                    ctx.abort_reason = str(a)
            except EngineError:
                raise
            except keep_exceptions as x:
                kind, exc = 'exc', x
            finally:
                ctx.finish()
            if ctx.dead:
                ctx.dead = False
                continue
            if ctx.abort_reason is not None:
                ex.status = f'inconclusive: {ctx.abort_reason}'
                break
            if ctx.pos < len(ctx.prefix):
                ex.status = f'inconclusive: replay ended early ({ctx.pos} of {len(ctx.prefix)} decisions)'
                break
            ex.paths.append(Path(list(ctx.pc), list(ctx.trace), kind, value, exc, list(ctx.sites), ctx.n_conc))
            ctx.stats.paths += 1
        if ctx.fanout_hit and ex.status == 'complete':
            ex.status = f'inconclusive: {ctx.fanout_hit}'
    finally:
        _CTX = None
        np.sqrt = _np_sqrt
        ex.stats = ctx.stats
        ex.stats.explorations = 1
        STATS.paths += ctx.stats.paths
        STATS.decisions += ctx.stats.decisions
        STATS.concretisations += ctx.stats.concretisations
        STATS.explorations += 1
        ex.wall_s = time.time()-t0
    return ex


# ----------------------------------------------------------------------------------------------------------------------
# helpers on results


class SymOut:
    """marker: a value returned from a path that is still symbolic"""


def conc_py(v):
    """NumPy scalar -> Python scalar"""
    if isinstance(v, np.generic):
        return v.item()
    return v


def deep_eval(v, model):
    """evaluate a (nested) result that may contain symbolic values under a z3 model -> plain Python"""
    if isinstance(v, (SInt, SReal, SBool)):
        c = _const_of(model.eval(v.e, model_completion=True))
        if isinstance(c, fractions.Fraction):
            return c
        return c
    if isinstance(v, np.ndarray):
        if v.dtype == object:
            return [deep_eval(x, model) for x in v.tolist()]
        return v.tolist()
    if isinstance(v, np.generic):
        return v.item()
    if isinstance(v, (list, tuple)):
        return [deep_eval(x, model) for x in v]
    if isinstance(v, dict):
        return {k: deep_eval(x, model) for k, x in v.items()}
    return v


def deep_expr_eq(sym, conc):
    """z3 constraint: the (nested) symbolic result equals the concrete nested value; None if shapes differ"""
    if isinstance(sym, (SInt, SReal, SBool)):
        if isinstance(conc, (list, tuple, dict)) or conc is None:
            return None
        return sym.e == z3val(conc)
    if isinstance(sym, np.ndarray):
        sym = sym.tolist()
    if isinstance(conc, np.ndarray):
        conc = conc.tolist()
    if isinstance(sym, (list, tuple)):
        if not isinstance(conc, (list, tuple)) or len(sym) != len(conc):
            return None
        parts = []
        for a, b in zip(sym, conc):
            p = deep_expr_eq(a, b)
            if p is None:
                return None
            parts.append(p)
        return z3.And(*parts) if parts else z3.BoolVal(True)
    sym, conc = conc_py(sym), conc_py(conc)
    if isinstance(sym, float) and isinstance(conc, float) and math.isnan(sym) and math.isnan(conc):
        return z3.BoolVal(True)
    return z3.BoolVal(sym == conc)


def model_int(model, e):
    return _const_of(model.eval(z3val(e), model_completion=True))


# ----------------------------------------------------------------------------------------------------------------------
# IEEE floating point (z3 FloatingPoint theory): the same real code is run on SFloat values so that rounding is part
# of the encoding. All arithmetic is round-to-nearest-even like CPython doubles. The width is a parameter of the
# harness (Float64 = what users run; Float32 / Float16 as reduced-width lemmas when Float64 does not finish).


def _fp_sort_of(e):
    return e.sort()


class SFloat:
    __slots__ = ('e',)

    def __init__(self, e):
        self.e = e

    @staticmethod
    def _rm():
        return z3.RNE()

    def _lift(self, o):
        if isinstance(o, SFloat):
            if o.e.sort() != self.e.sort():
                raise EngineError('mixed floating-point widths')
            return o.e
        if isinstance(o, (bool, np.bool_)):
            o = int(o)
        if isinstance(o, (int, np.integer, float, np.floating)):
            return z3.FPVal(float(o), self.e.sort())
        if isinstance(o, (SInt, SReal)):
            c = _const_of(_simp(o.e))
            if c is not None:
                return z3.FPVal(float(c), self.e.sort())
            raise EngineError('mixing symbolic int/real with symbolic float')
        return None

    def _bin(self, o, f, rev=False):
        if isinstance(o, np.ndarray):
            return NotImplemented
        b = self._lift(o)
        if b is None:
            return NotImplemented
        a = self.e
        if rev:
            a, b = b, a
        return SFloat(_simp(f(a, b)))

    def __add__(self, o): return self._bin(o, lambda a, b: z3.fpAdd(self._rm(), a, b))
    def __radd__(self, o): return self._bin(o, lambda a, b: z3.fpAdd(self._rm(), a, b), True)
    def __sub__(self, o): return self._bin(o, lambda a, b: z3.fpSub(self._rm(), a, b))
    def __rsub__(self, o): return self._bin(o, lambda a, b: z3.fpSub(self._rm(), a, b), True)
    def __mul__(self, o): return self._bin(o, lambda a, b: z3.fpMul(self._rm(), a, b))
    def __rmul__(self, o): return self._bin(o, lambda a, b: z3.fpMul(self._rm(), a, b), True)

    def _div(self, o, rev=False):
        b = self._lift(o)
        if b is None:
            return NotImplemented
        a = self.e
        if rev:
            a, b = b, a
        # CPython raises ZeroDivisionError for float division by zero
        z = _fold(z3.fpIsZero(b))
        if z is True or (isinstance(z, SBool) and bool(z)):
            raise ZeroDivisionError('float division by zero')
        return SFloat(_simp(z3.fpDiv(self._rm(), a, b)))

    def __truediv__(self, o): return self._div(o)
    def __rtruediv__(self, o): return self._div(o, True)
    def __neg__(self): return SFloat(_simp(z3.fpNeg(self.e)))
    def __pos__(self): return self
    def __abs__(self): return SFloat(_simp(z3.fpAbs(self.e)))

    def _cmp(self, o, f, ne=False):
        if isinstance(o, np.ndarray):
            return NotImplemented
        b = self._lift(o)
        if b is None:
            return ne
        return _fold(f(self.e, b))

    def __lt__(self, o): return self._cmp(o, z3.fpLT)
    def __le__(self, o): return self._cmp(o, z3.fpLEQ)
    def __gt__(self, o): return self._cmp(o, z3.fpGT)
    def __ge__(self, o): return self._cmp(o, z3.fpGEQ)
    def __eq__(self, o): return self._cmp(o, z3.fpEQ)
    def __ne__(self, o): return self._cmp(o, lambda a, b: z3.Not(z3.fpEQ(a, b)), True)

    def __bool__(self):
        return bool(self != 0.)

    def __float__(self):
        raise EngineError('float() of a symbolic float (no concretisation of IEEE values)')

    def __hash__(self):
        raise EngineError('hash() of a symbolic float')

    def __format__(self, spec):
        return f'<{self.e}>'

    def __repr__(self):
        return f'SFloat({self.e})'

    __str__ = __repr__

    def __deepcopy__(self, memo):
        return self

    def __copy__(self):
        return self


_FP_SORTS = {16: z3.Float16, 32: z3.Float32, 64: z3.Float64}


def sym_float(name, bits=64):
    return SFloat(z3.FP(name, _FP_SORTS[bits]()))


def fp_model_value(model, e):
    """Python float of a z3 FP term under a model (exact for <= 64 bit)"""
    import struct
    v = model.eval(e, model_completion=True)
    if z3.is_fp(v):
        if z3.simplify(z3.fpIsNaN(v)).__bool__() if False else z3.is_true(z3.simplify(z3.fpIsNaN(v))):
            return float('nan')
        bv = z3.simplify(z3.fpToIEEEBV(v))
        n = bv.as_long()
        bits = v.sort().ebits()+v.sort().sbits()
        if bits == 64:
            return struct.unpack('>d', n.to_bytes(8, 'big'))[0]
        if bits == 32:
            return struct.unpack('>f', n.to_bytes(4, 'big'))[0]
        if bits == 16:
            return struct.unpack('>e', n.to_bytes(2, 'big'))[0]
    raise EngineError(f'not an FP value: {v}')


__all__ += ['SFloat', 'sym_float', 'fp_model_value', 'SSqrt']


class FPAbstraction:
    """Replaces every application of an FP arithmetic operator (add, sub, mul, div, neg, abs, fma, ...) by a fresh FP
    constant - the same term by the same constant. An over-approximation of the terms' values: `unsat` of a query over
    abstracted formulas implies `unsat` of the original; `sat` means nothing."""
    _ARITH = None

    def __init__(self):
        if FPAbstraction._ARITH is None:
            FPAbstraction._ARITH = {
                z3.Z3_OP_FPA_ADD, z3.Z3_OP_FPA_SUB, z3.Z3_OP_FPA_MUL, z3.Z3_OP_FPA_DIV, z3.Z3_OP_FPA_NEG,
                z3.Z3_OP_FPA_ABS, z3.Z3_OP_FPA_FMA, z3.Z3_OP_FPA_REM, z3.Z3_OP_FPA_SQRT,
                z3.Z3_OP_FPA_ROUND_TO_INTEGRAL, z3.Z3_OP_FPA_MIN, z3.Z3_OP_FPA_MAX}
        self.memo = {}
        self.keep = []
        self.n = 0

    def __call__(self, e):
        k = e.get_id()
        if k in self.memo:
            return self.memo[k]
        if z3.is_app(e) and e.num_args() > 0:
            if z3.is_fp(e) and e.decl().kind() in self._ARITH:
                r = z3.FP(f'abs!{self.n}', e.sort())
                self.n += 1
            else:
                r = e.decl()(*[self(a) for a in e.children()])
        else:
            r = e
        self.memo[k] = r
        self.keep.append(e)
        return r


__all__ += ['FPAbstraction']
